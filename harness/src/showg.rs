// Result formatting generic in the user and engine types (the compiled surface batches run
// proto_vulcan_query! queries, whose user type is DefaultUser).
use proto_vulcan::engine::Engine;
use proto_vulcan::lresult::LResult;
use proto_vulcan::lterm::{LTerm, LTermInner};
use proto_vulcan::lvalue::LValue;
use proto_vulcan::relation::diseq::DisequalityConstraint;
use proto_vulcan::state::constraint::Constraint;
use proto_vulcan::user::User;
use std::rc::Rc;

pub fn show<U: User, E: Engine<U>>(t: &LTerm<U, E>, out: &mut String) {
    match t.as_ref() {
        LTermInner::Val(LValue::Number(n)) => out.push_str(&n.to_string()),
        LTermInner::Val(LValue::Bool(b)) => out.push_str(if *b { "#t" } else { "#f" }),
        LTermInner::Val(LValue::Char(c)) => out.push_str(&format!("'{}", *c as u32)),
        LTermInner::Val(LValue::String(s)) => out.push_str(&format!("\"{}\"", s)),
        LTermInner::Var(uid, name) => {
            if *name == "_" {
                out.push_str(&format!("_{}", uid))
            } else {
                out.push_str(&format!("?{}", uid))
            }
        }
        LTermInner::User(_) => out.push_str("<user>"),
        LTermInner::Projection(_) => out.push_str("<proj>"),
        LTermInner::Empty => out.push_str("()"),
        LTermInner::Cons(_, _) => {
            out.push('(');
            let mut cur = t;
            let mut first = true;
            loop {
                match cur.as_ref() {
                    LTermInner::Cons(h, tl) => {
                        if !first {
                            out.push(' ');
                        }
                        first = false;
                        show(h, out);
                        cur = tl;
                    }
                    LTermInner::Empty => break,
                    _ => {
                        out.push_str(" . ");
                        show(cur, out);
                        break;
                    }
                }
            }
            out.push(')')
        }
        LTermInner::Compound(c) => {
            out.push('{');
            out.push_str(if c.type_name().is_empty() { "Tup" } else { c.type_name() });
            kids(c.as_ref(), out);
            out.push('}')
        }
    }
}

fn kids<U: User, E: Engine<U>>(c: &dyn proto_vulcan::compound::CompoundObject<U, E>, out: &mut String) {
    for child in c.children() {
        match child.as_term() {
            Some(t) => {
                out.push(' ');
                show(t, out)
            }
            None => {
                out.push_str(" {Opt");
                kids(child, out);
                out.push('}')
            }
        }
    }
}

fn term_str<U: User, E: Engine<U>>(t: &LTerm<U, E>) -> String {
    let mut s = String::new();
    show(t, &mut s);
    s
}

fn show_constraint<U: User, E: Engine<U>>(c: &Rc<dyn Constraint<U, E>>) -> String {
    match c.downcast_ref::<DisequalityConstraint<U, E>>() {
        Some(d) => {
            let mut pairs: Vec<String> = d.smap_ref().iter().map(|(k, v)| format!("({} {})", term_str(k), term_str(v))).collect();
            pairs.sort();
            format!("({})", pairs.join(" "))
        }
        None => "(other)".to_string(),
    }
}

pub fn fmt_answer<U: User, E: Engine<U>>(results: &[LResult<U, E>], steps: u64) -> String {
    let mut out = String::from("(ans (");
    for (i, r) in results.iter().enumerate() {
        if i > 0 {
            out.push(' ');
        }
        out.push_str(&term_str(&r.0));
    }
    out.push_str(") (");
    if let Some(r) = results.first() {
        let mut cs: Vec<String> = r.1.iter().map(show_constraint).collect();
        cs.sort();
        out.push_str(&cs.join(" "));
    }
    out.push_str(") (");
    for (i, r) in results.iter().enumerate() {
        if i > 0 {
            out.push(' ');
        }
        let mut cs: Vec<String> = r.constraints().map(show_constraint).collect();
        cs.sort();
        out.push_str(&format!("({})", cs.join(" ")));
    }
    out.push_str(&format!(") {}) ", steps));
    out
}
