// Correspondence harness: reads one case per line, drives the real proto-vulcan
// library through its public API, prints one result line per case.
extern crate proto_vulcan;
mod sexp;
mod fdcase;
mod prog;
mod comp;
mod ucase;

use sexp::Sexp;
use std::io::{BufRead, Write};
use std::panic;

fn run_case(e: &Sexp) -> String {
    let l = e.list();
    match l[0].atom() {
        "fd" => fdcase::run(&l[1..]),
        "prog" => prog::run(&l[1..]),
        "unify" => ucase::run_unify(&l[1..]),
        "lterm" => ucase::run_lterm(&l[1..]),
        k => panic!("harness: unknown case kind {}", k),
    }
}

fn main() {
    let args: Vec<String> = std::env::args().collect();
    let input: Box<dyn BufRead> = if args.len() > 1 {
        Box::new(std::io::BufReader::new(std::fs::File::open(&args[1]).expect("open cases")))
    } else {
        Box::new(std::io::BufReader::new(std::io::stdin()))
    };
    panic::set_hook(Box::new(|_| {}));
    let out = std::io::stdout();
    let mut out = std::io::BufWriter::new(out.lock());
    let mut i = 0usize;
    for line in input.lines() {
        let line = line.expect("read");
        if line.is_empty() || line.starts_with('#') {
            continue;
        }
        let res = panic::catch_unwind(|| {
            let e = sexp::parse(&line);
            run_case(&e)
        });
        let s = match res {
            Ok(s) => s,
            Err(p) => {
                let msg = if let Some(s) = p.downcast_ref::<&str>() {
                    s.to_string()
                } else if let Some(s) = p.downcast_ref::<String>() {
                    s.clone()
                } else {
                    "?".to_string()
                };
                let first = msg.lines().next().unwrap_or("").to_string();
                if first.starts_with("harness:") {
                    format!("error:{}", first)
                } else {
                    format!("panic:{}", first)
                }
            }
        };
        writeln!(out, "{}\t{}", i, s).unwrap();
        i += 1;
    }
    out.flush().unwrap();
}
