(* Driver for the extracted Coq model: reads one case per line (s-expressions),
   runs the model, prints one result line per case.  Used only by the
   correspondence check and the failing-input search; no theorem depends on it. *)
open Model

(* ---------- s-expressions ---------- *)
type sexp = A of string | L of sexp list

let parse_sexp (s : string) : sexp =
  let n = String.length s in
  let pos = ref 0 in
  let rec skip () = if !pos < n && (s.[!pos] = ' ' || s.[!pos] = '\t') then (incr pos; skip ()) in
  let rec parse () =
    skip ();
    if !pos >= n then failwith "sexp: eof"
    else if s.[!pos] = '(' then begin
      incr pos;
      let items = ref [] in
      let rec loop () =
        skip ();
        if !pos >= n then failwith "sexp: unclosed"
        else if s.[!pos] = ')' then incr pos
        else (items := parse () :: !items; loop ()) in
      loop (); L (List.rev !items)
    end else begin
      let st = !pos in
      while !pos < n && s.[!pos] <> ' ' && s.[!pos] <> '(' && s.[!pos] <> ')' && s.[!pos] <> '\t' do incr pos done;
      A (String.sub s st (!pos - st))
    end in
  parse ()

(* ---------- numbers ---------- *)
let rec pos_of_int (n : int) : positive =
  if n = 1 then XH else if n land 1 = 0 then XO (pos_of_int (n lsr 1)) else XI (pos_of_int (n lsr 1))
let z_of_small (n : int) : z = if n = 0 then Z0 else if n > 0 then Zpos (pos_of_int n) else Zneg (pos_of_int (-n))
let z10 = z_of_small 10
let z_of_string (s : string) : z =
  let neg = String.length s > 0 && s.[0] = '-' in
  let st = if neg then 1 else 0 in
  let acc = ref Z0 in
  for i = st to String.length s - 1 do
    let d = Char.code s.[i] - 48 in
    if d < 0 || d > 9 then failwith ("bad number " ^ s);
    acc := Z.add (Z.mul !acc z10) (z_of_small d)
  done;
  if neg then Z.opp !acc else !acc
let rec int_of_pos (p : positive) : int =
  match p with XH -> 1 | XO q -> 2 * int_of_pos q | XI q -> 2 * int_of_pos q + 1
let string_of_z (x : z) : string =
  let rec go (x : z) (acc : string) : string =
    match x with
    | Z0 -> acc
    | _ -> let (q, r) = Z.quotrem x z10 in
           let d = (match r with Z0 -> 0 | Zpos p -> int_of_pos p | Zneg p -> int_of_pos p) in
           go q (string_of_int d ^ acc) in
  match x with
  | Z0 -> "0"
  | Zpos _ -> go x ""
  | Zneg p -> "-" ^ go (Zpos p) ""
let rec nat_of_int (n : int) : nat = if n <= 0 then O else S (nat_of_int (n - 1))
let rec int_of_nat (n : nat) : int = match n with O -> 0 | S m -> 1 + int_of_nat m

let atom = function A s -> s | L _ -> failwith "atom expected"
let znum e = z_of_string (atom e)

(* ---------- finite domains (C18) ---------- *)
let parse_fd (e : sexp) : fd option =
  match e with
  | L [A "i"; lo; hi] -> Some (fd_from_range (znum lo) (znum hi))
  | L (A "v" :: xs) -> fd_from_vec (List.map znum xs)       (* From<Vec>: None = panic *)
  | L (A "s" :: xs) -> fd_from_vec (List.map znum xs)       (* From<&[isize]>: the same set *)
  | L [A "n"; x] -> Some (fd_from_value (znum x))
  | _ -> failwith "bad fd"
let parse_pred (e : sexp) : z -> bool =
  match e with
  | L [A "gt"; c] -> let c = znum c in (fun x -> Z.ltb c x)
  | L [A "ge"; c] -> let c = znum c in (fun x -> Z.leb c x)
  | L [A "lt"; c] -> let c = znum c in (fun x -> Z.ltb x c)
  | L [A "le"; c] -> let c = znum c in (fun x -> Z.leb x c)
  | L [A "eq"; c] -> let c = znum c in (fun x -> Z.eqb x c)
  | L [A "never"] -> (fun _ -> false)
  | L [A "always"] -> (fun _ -> true)
  | _ -> failwith "bad pred"
let show_zlist l = "[" ^ String.concat " " (List.map string_of_z l) ^ "]"
let show_fdopt = function
  | None -> "none"
  | Some (Interval (lo, hi)) when Z.ltb (z_of_small 100) (Z.sub hi lo) -> "{" ^ string_of_z lo ^ ".." ^ string_of_z hi ^ "}"
  | Some d -> show_zlist (fd_iter d)
let show_zopt = function None -> "none" | Some x -> string_of_z x
let show_bool b = if b then "true" else "false"

let run_fd (args : sexp list) : string =
  match args with
  | [A op; a] ->
    (match parse_fd a with
     | None -> "panic"
     | Some a ->
       (match op with
        | "iter" -> show_zlist (fd_iter a)
        | "iter_rev" -> show_zlist (fd_iter_rev a)
        | "into_iter" -> show_zlist (fd_iter a)
        | "into_rev" -> show_zlist (fd_iter_rev a)
        | "into_alt" ->
          let rec alt front l = (match l with
            | [] -> []
            | _ -> if front then List.hd l :: alt false (List.tl l)
                   else (let r = List.rev l in List.hd r :: alt true (List.rev (List.tl r)))) in
          show_zlist (alt true (fd_iter a))
        | "min" -> (match fd_min a with None -> "panic" | Some x -> string_of_z x)
        | "max" -> (match fd_max a with None -> "panic" | Some x -> string_of_z x)
        | "is_singleton" -> show_bool (fd_is_singleton a)
        | "singleton_value" -> show_zopt (fd_singleton_value a)
        | _ -> failwith "bad fd op"))
  | [A "contains"; a; u] ->
    (match parse_fd a with None -> "panic" | Some a -> show_bool (fd_contains a (znum u)))
  | [A "copy_before"; p; a] ->
    (match parse_fd a with None -> "panic" | Some a -> show_fdopt (fd_copy_before (parse_pred p) a))
  | [A "drop_before"; p; a] ->
    (match parse_fd a with None -> "panic" | Some a -> show_fdopt (fd_drop_before (parse_pred p) a))
  | [A op; a; b] ->
    (match parse_fd a, parse_fd b with
     | Some a, Some b ->
       (match op with
        | "intersect" -> show_fdopt (fd_intersect a b)
        | "diff" -> show_fdopt (fd_diff a b)
        | "is_disjoint" -> (match fd_is_disjoint a b with None -> "panic" | Some r -> show_bool r)
        | "eq" -> show_bool (fd_eqb a b)
        | _ -> failwith "bad fd op")
     | _ -> "panic")
  | _ -> failwith "bad fd case"


(* ---------- programs ---------- *)
let names : (string, int) Hashtbl.t = Hashtbl.create 64
let names_tbl = names
let intern (s : string) : nat =
  (* the model's reserved tag of a typed non-term field (Option<..>): Engine.opt_tag = 0 *)
  if s = "comp:Opt" then O else
  let i = (match Hashtbl.find_opt names s with
           | Some i -> i
           | None -> let i = Hashtbl.length names + 1 in Hashtbl.add names s i; i) in
  nat_of_int i

let n_of_int (n : int) : n = N.of_nat (nat_of_int n)
let is_int s = (try ignore (int_of_string s); true with _ -> false)

let rec parse_term (e : sexp) : term =
  match e with
  | A "nil" -> TEmpty
  | A "_" -> TVar (O, true)
  | A "#t" -> TVal (LBool true)
  | A "#f" -> TVal (LBool false)
  | A s -> if is_int s || (String.length s > 1 && s.[0] = '-') then TVal (LNum (z_of_string s)) else TVar (intern s, false)
  | L [A "s"; A i] -> TVal (LStr (n_of_int (int_of_string i)))
  | L [A "c"; A i] -> TVal (LChar (n_of_int (int_of_string i)))
  | L [A "cons"; h; t] -> TCons (parse_term h, parse_term t)
  | L (A "list" :: xs) -> list_term (List.map parse_term xs)
  | L (A "ilist" :: xs) ->
    let r = List.rev (List.map parse_term xs) in
    (match r with last :: front -> improper_term (List.rev front) last | [] -> failwith "ilist")
  | L (A "comp" :: A tag :: xs) ->
    let rec mk = function [] -> TNil | x :: r -> TMore (parse_term x, mk r) in
    TComp (intern ("comp:" ^ tag), mk xs)
  | _ -> failwith "bad term"

let parse_fd_dom (e : sexp) : fd =
  match parse_fd e with Some d -> d | None -> failwith "empty domain vector"

let rec parse_goal (e : sexp) : goal =
  match e with
  | A "true" -> GTrue
  | A "false" -> GFalse
  | L [A "eq"; u; v] -> GEq (parse_term u, parse_term v)
  | L [A "neq"; u; v] -> GDiseq (parse_term u, parse_term v)
  | L (A "conj" :: gs) -> GConj (List.map parse_goal gs)
  | L (A "fresh" :: L xs :: gs) -> GFresh (List.map (fun x -> intern (atom x)) xs, List.map parse_goal gs)
  | L (A "cond" :: cs) -> GCond (parse_body cs)
  | L (A "condv" :: cs) -> GCond (parse_body cs)   (* Conde::from_vec: the same answers (multiset / depth-first order) *)
  | L (A "mapsum" :: levels) ->
    (* the labeling combinator, nested: as answers, x is one of its values, then y one of its values, .. *)
    GConj (List.map (fun l -> match l with
      | L (x :: vals) -> GCond (List.map (fun v -> [GEq (parse_term x, parse_term v)]) vals)
      | _ -> failwith "bad mapsum") levels)
  | L [A "reuse"; n; g] -> let g' = parse_goal g in GConj (List.init (int_of_string (atom n)) (fun _ -> g'))
  | L (A "disj" :: A _ :: cs) -> GCond (parse_body cs)   (* the binary-disjunction API: the same answers as conde (multiset) *)
  | L (A "conda" :: cs) -> GConda (parse_body cs)
  | L (A "condu" :: cs) -> GCondu (parse_body cs)
  | L (A "onceo" :: cs) -> GOnceo (parse_body cs)
  | L (A "loop" :: cs) -> GLoop (parse_body cs)
  | L (A "dfs" :: cs) -> GDfs (parse_body cs)
  | L (A "closure" :: gs) -> GClosure (List.map parse_goal gs)
  | L (A "call" :: A r :: args) -> GCall (intern ("rel:" ^ r), List.map parse_term args)
  | L (A "lib" :: A r :: args) -> GCall (intern ("lib:" ^ r), List.map parse_term args)
  | L (A "rel" :: A r :: args) ->
    let k = (match r with
      | "ltefd" -> RLte | "ltfd" -> RLt | "plusfd" -> RPlus | "minusfd" -> RMinus | "timesfd" -> RTimes
      | "diseqfd" -> RDiseqFd | "distinctfd" -> RDistinct | "plusz" -> RPlusZ | "timesz" -> RTimesZ
      | _ -> failwith "bad rel") in
    GRel (k, List.map parse_term args)
  | L [A "dom"; t; d] -> GDom (parse_term t, parse_fd_dom d)
  | L (A mk :: t :: arms) when mk = "match" || mk = "matche" || mk = "matcha" || mk = "matchu" ->
    let k = (match mk with "matcha" -> MMatcha | "matchu" -> MMatchu | _ -> MMatch) in
    GMatch (k, parse_term t, List.map (fun a ->
      match a with
      | L (A "arm" :: L (A "pats" :: ps) :: body) -> (List.map parse_term ps, List.map parse_goal body)
      | _ -> failwith "bad arm") arms)
  | L (A "for" :: A x :: coll :: cs) -> GFor (intern x, parse_term coll, parse_body cs)
  | L (A "project" :: L xs :: gs) -> GProject (List.map (fun x -> intern (atom x)) xs, List.map parse_goal gs)
  | L [A "probe"; A tag] -> GProbe (intern ("probe:" ^ tag))
  | L [A "sq"; u; v] -> GSq (parse_term u, parse_term v)
  | _ -> failwith "bad goal"
and parse_body (cs : sexp list) : goal list list =
  List.map (fun c -> match c with
    | L (A "conj" :: gs) -> List.map parse_goal gs
    | g -> [parse_goal g]) cs

let parse_def (prefix : string) (e : sexp) : nat * def =
  match e with
  | L [A "def"; A name; L (A "params" :: ps); A mode; body] ->
    (intern (prefix ^ name),
     { d_params = List.map (fun p -> intern (atom p)) ps; d_closure = (mode = "closure"); d_body = parse_goal body })
  | _ -> failwith "bad def"

let lib_defs : (nat * def) list Lazy.t = lazy (
  match Sys.getenv_opt "PV_LIBDEFS" with
  | None -> []
  | Some path ->
    let ic = open_in path in
    let acc = ref [] in
    (try while true do
       let line = input_line ic in
       if String.length line > 0 && line.[0] = '(' then acc := parse_def "lib:" (parse_sexp line) :: !acc
     done with End_of_file -> close_in ic);
    List.rev !acc)

let buf_add = Buffer.add_string
let rec show_term (b : Buffer.t) (t : term) : unit =
  match t with
  | TVal (LNum z) -> buf_add b (string_of_z z)
  | TVal (LBool true) -> buf_add b "#t"
  | TVal (LBool false) -> buf_add b "#f"
  | TVal (LChar c) -> buf_add b ("'" ^ string_of_int (int_of_nat (N.to_nat c)))
  | TVal (LStr s) -> buf_add b ("\"s" ^ string_of_int (int_of_nat (N.to_nat s)) ^ "\"")
  | TVar (v, true) -> buf_add b ("_" ^ string_of_int (int_of_nat v))
  | TVar (v, false) -> buf_add b ("?" ^ string_of_int (int_of_nat v))
  | TEmpty -> buf_add b "()"
  | TCons (_, _) ->
    buf_add b "(";
    let rec go first t =
      (match t with
       | TCons (h, tl) -> if not first then buf_add b " "; show_term b h; go false tl
       | TEmpty -> ()
       | other -> buf_add b " . "; show_term b other) in
    go true t; buf_add b ")"
  | TComp (tag, cs) ->
    let name = if tag = O then "comp:Opt" else Hashtbl.fold (fun k v acc -> if v = int_of_nat tag then k else acc) names "?" in
    let name = if String.length name > 5 then String.sub name 5 (String.length name - 5) else name in
    buf_add b ("{" ^ name);
    let rec go = function TNil -> () | TMore (t, r) -> buf_add b " "; show_term b t; go r in
    go cs; buf_add b "}"

let term_str t = let b = Buffer.create 32 in show_term b t; Buffer.contents b
let show_constraint (ps : (nat * term) list) : string =
  let pairs = List.map (fun (k, v) -> "(" ^ term_str (TVar (k, true)) ^ " " ^ term_str v ^ ")") ps in
  "(" ^ String.concat " " (List.sort compare pairs) ^ ")"
let rec shape (t : term) : string =
  match t with
  | TVar (_, _) -> "?"
  | TCons (h, tl) -> "(. " ^ shape h ^ " " ^ shape tl ^ ")"
  | TComp (_, cs) -> let rec go = function TNil -> "" | TMore (t, r) -> " " ^ shape t ^ go r in "{" ^ go cs ^ "}"
  | other -> term_str other
let tag_name (tag : nat) : string =
  let name = Hashtbl.fold (fun k v acc -> if v = int_of_nat tag then k else acc) names "?" in
  if String.length name > 6 then String.sub name 6 (String.length name - 6) else name
let show_probe (e : uevent) : string =
  match e with
  | UProbe (tag, w, t, n, x, ext) ->
    Printf.sprintf "(probe %s %d %d %d %d (%s))" (tag_name tag) (int_of_nat w) (int_of_nat t) (int_of_nat n) (int_of_nat x)
      (String.concat " " (List.sort compare (List.map (fun (_, v) -> shape v) ext)))
  | _ -> ""

let run_prog (args : sexp list) : string =
  match args with
  | [L (A "defs" :: ds); L (A "query" :: L qs :: body); L [A "max"; A m]; L [A "budget"; A bdg]] ->
    let defs = Lazy.force lib_defs @ List.map (parse_def "rel:") ds in
    let qnames = List.map (fun x -> intern (atom x)) qs in
    let nvars = nat_of_int (List.length qs) in
    let goals = List.map parse_goal body in
    let (g, st) = query_goal defs nvars qnames goals in
    let s0 = start defs sfuel g st in
    let ((answers, fin), _) = run_query defs (nat_of_int (int_of_string m)) (nat_of_int (int_of_string bdg)) nvars s0 [] in
    let b = Buffer.create 256 in
    let lineages = ref [] in
    List.iter (fun (a, steps) ->
      buf_add b "(ans (";
      List.iteri (fun i t -> if i > 0 then buf_add b " "; show_term b t) a.a_terms;
      buf_add b ") (";
      buf_add b (String.concat " " (List.sort compare (List.map show_constraint a.a_constraints)));
      buf_add b ") (";
      List.iteri (fun i t ->
        if i > 0 then buf_add b " ";
        buf_add b ("(" ^ String.concat " " (List.sort compare (List.map show_constraint (relevant_constraints t a.a_constraints))) ^ ")")) a.a_terms;
      buf_add b (") " ^ string_of_int (int_of_nat steps) ^ ") ");
      if a.a_probes <> [] then
        lineages := ("(lineage " ^ String.concat " " (List.map show_probe a.a_probes) ^ ")") :: !lineages) answers;
    let fin_s = (match fin with
      | EDone -> "done" | ELimit -> "limit" | EBudget -> "budget"
      | EError (true, _) -> "oof"
      | EError (false, site) -> "panic:" ^ string_of_int (int_of_nat site)) in
    buf_add b ("(end " ^ fin_s ^ ") (probes " ^ String.concat " " (List.rev !lineages) ^ ")");
    Buffer.contents b
  | _ -> failwith "bad prog"

(* ---------- direct unification (C01) ---------- *)
let run_unify (args : sexp list) : string =
  match args with
  | [L (A "vars" :: vs); L (A "prior" :: ps); u; v] ->
    let names = List.map atom vs in
    let idx = List.mapi (fun i n -> (n, i)) names in
    let rec tr (t : term) : term =
      (match t with
       | TVar (_, true) -> t
       | TVar (n, false) ->
         let name = Hashtbl.fold (fun k v acc -> if v = int_of_nat n then k else acc) names_tbl "" in
         (match List.assoc_opt name idx with Some i -> TVar (nat_of_int i, false) | None -> failwith ("unbound " ^ name))
       | TCons (h, tl) -> TCons (tr h, tr tl)
       | TComp (g, cs) -> let rec go = function TNil -> TNil | TMore (t, r) -> TMore (tr t, go r) in TComp (g, go cs)
       | other -> other) in
    let pt e = tr (parse_term e) in
    let show t =
      let b = Buffer.create 32 in
      let rec sh (t : term) =
        (match t with
         | TVar (v, _) -> buf_add b (List.nth names (int_of_nat v))
         | TCons (_, _) ->
           buf_add b "(";
           let rec go first t = (match t with
             | TCons (h, tl) -> if not first then buf_add b " "; sh h; go false tl
             | TEmpty -> ()
             | other -> buf_add b " . "; sh other) in
           go true t; buf_add b ")"
         | TComp (tag, cs) ->
           let name = Hashtbl.fold (fun k v acc -> if v = int_of_nat tag then k else acc) names_tbl "?" in
           let name = if String.length name > 5 then String.sub name 5 (String.length name - 5) else name in
           buf_add b ("{" ^ name);
           let rec go = function TNil -> () | TMore (t, r) -> buf_add b " "; sh t; go r in
           go cs; buf_add b "}"
         | other -> show_term b other) in
      sh t; Buffer.contents b in
    let rec priors s n = function
      | [] -> Some (s, n)
      | L [a; b] :: r ->
        (match unify dfuel s [] (pt a) (pt b) with
         | UOk (s', _) -> priors s' (n + 1) r
         | UFail -> None
         | UOOF -> failwith "oof")
      | _ -> failwith "bad prior" in
    (match priors [] 0 ps with
     | None -> "prior-fail"
     | Some (s, n) ->
       let (u', v') = (pt u, pt v) in
       (match unify dfuel s [] u' v' with
        | UFail -> "fail"
        | UOOF -> "oof"
        | UOk (s', _) ->
          let ws t = (match walk_star dfuel s' t with Some w -> show w | None -> "oof") in
          "ok " ^ ws u' ^ " " ^ ws v' ^ " (" ^
          String.concat " " (List.mapi (fun i _ -> ws (TVar (nat_of_int i, false))) names) ^ ") " ^ string_of_int (n + 1)))
  | _ -> failwith "bad unify case"

(* ---------- LTerm API (C21) ---------- *)
let run_lterm (args : sexp list) : string =
  let names = ["x0"; "x1"; "x2"] in
  let idx = List.mapi (fun i n -> (n, i)) names in
  let rec tr (t : term) : term =
    (match t with
     | TVar (_, true) -> t
     | TVar (n, false) ->
       let name = Hashtbl.fold (fun k v acc -> if v = int_of_nat n then k else acc) names_tbl "" in
       (match List.assoc_opt name idx with Some i -> TVar (nat_of_int i, false) | None -> failwith ("unbound " ^ name))
     | TCons (h, tl) -> TCons (tr h, tr tl)
     | TComp (g, cs) -> let rec go = function TNil -> TNil | TMore (t, r) -> TMore (tr t, go r) in TComp (g, go cs)
     | other -> other) in
  let pt e = tr (parse_term e) in
  let pts e = (match e with L xs -> List.map pt xs | _ -> failwith "list") in
  let show t =
    let b = Buffer.create 32 in
    let rec sh (t : term) =
      (match t with
       | TVar (v, false) -> buf_add b (List.nth names (int_of_nat v))
       | TVar (v, true) -> buf_add b "_"
       | TCons (_, _) ->
         buf_add b "(";
         let rec go first t = (match t with
           | TCons (h, tl) -> if not first then buf_add b " "; sh h; go false tl
           | TEmpty -> ()
           | other -> buf_add b " . "; sh other) in
         go true t; buf_add b ")"
       | TComp (tag, cs) ->
         let name = Hashtbl.fold (fun k v acc -> if v = int_of_nat tag then k else acc) names_tbl "?" in
         let name = if String.length name > 5 then String.sub name 5 (String.length name - 5) else name in
         buf_add b ("{" ^ name);
         let rec go = function TNil -> () | TMore (t, r) -> buf_add b " "; sh t; go r in
         go cs; buf_add b "}"
       | other -> show_term b other) in
    sh t; Buffer.contents b in
  let showl l = "[" ^ String.concat " " (List.map show l) ^ "]" in
  let showo = function Some t -> show t | None -> "none" in
  let panico = function Some t -> show t | None -> "panic" in
  match args with
  | [A ("eq" | "eqm"); a; b] ->
    let (a, b) = (pt a, pt b) in
    let e = term_eqb a b in
    Printf.sprintf "%b sym=%b refl=%b hash_equal=%b map_lookup=%b" e (term_eqb b a) (term_eqb a a)
      (if e then true else (hash_tokens a = hash_tokens b)) e
  | [A ("from_vec" | "from_array" | "collect"); l] -> show (lt_collect (pts l))
  | [A ("improper" | "improper_array"); l] -> panico (lt_improper (pts l))
  | [A ("iter" | "into_iter" | "iter_mut"); t] -> showl (lt_iter (pt t))
  | [A "iter_mut_set"; t; w] ->
    let w = pt w in
    let rec set (t : term) : term = (match t with
      | TEmpty -> TEmpty
      | TCons (_, tl) -> TCons (w, (match tl with TEmpty -> TEmpty | TCons (_, _) -> set tl | _ -> w))
      | _ -> w) in
    show (set (pt t))
  | [A "extend"; t; c] -> panico (lt_extend (pt t) (pts c))
  | [A "index"; t; A n] -> panico (lt_index (pt t) (nat_of_int (int_of_string n)))
  | [A "head"; t] -> showo (lt_head (pt t))
  | [A "tail"; t] -> showo (lt_tail (pt t))
  | [A "is_list"; t] -> string_of_bool (lt_is_list (pt t))
  | [A "is_empty"; t] -> string_of_bool (lt_is_empty (pt t))
  | [A "is_improper"; t] -> string_of_bool (lt_is_improper (pt t))
  | [A "is_non_empty_list"; t] -> string_of_bool (lt_is_non_empty_list (pt t))
  | [A "contains"; t; v] -> string_of_bool (lt_contains (pt t) (pt v))
  | _ -> failwith "bad lterm case"

let run_case (e : sexp) : string =
  match e with
  | L (A "fd" :: args) -> run_fd args
  | L (A "prog" :: args) -> run_prog args
  | L (A "unify" :: args) -> run_unify args
  | L (A "lterm" :: args) -> run_lterm args
  | _ -> failwith "unknown case kind"

let () =
  let ic = if Array.length Sys.argv > 1 then open_in Sys.argv.(1) else stdin in
  let i = ref 0 in
  (try
    while true do
      let line = input_line ic in
      if String.length line > 0 && line.[0] <> '#' then begin
        let res = (try run_case (parse_sexp line) with
                   | Failure m -> "error:" ^ m
                   | Stack_overflow -> "error:stack_overflow"
                   | Not_found -> "error:not_found") in
        print_string (string_of_int !i); print_char '\t'; print_endline res;
        incr i
      end
    done
  with End_of_file -> ());
  flush stdout
