(* Driver for the extracted Coq model: reads one case per line (s-expressions),
   runs the model, prints one result line per case.  Used only by the
   correspondence check and the failing-input search; no theorem depends on it. *)
open Model

(* ---------- s-expressions ---------- *)
type sexp = A of string | L of sexp list

let parse_sexp (s : string) : sexp =
  let n = String.length s in
  let pos = ref 0 in
  let rec skip () = if !pos < n && (s.[!pos] = ' ' || s.[!pos] = '\t') then (incr pos; skip ()) in
  let rec parse () =
    skip ();
    if !pos >= n then failwith "sexp: eof"
    else if s.[!pos] = '(' then begin
      incr pos;
      let items = ref [] in
      let rec loop () =
        skip ();
        if !pos >= n then failwith "sexp: unclosed"
        else if s.[!pos] = ')' then incr pos
        else (items := parse () :: !items; loop ()) in
      loop (); L (List.rev !items)
    end else begin
      let st = !pos in
      while !pos < n && s.[!pos] <> ' ' && s.[!pos] <> '(' && s.[!pos] <> ')' && s.[!pos] <> '\t' do incr pos done;
      A (String.sub s st (!pos - st))
    end in
  parse ()

(* ---------- numbers ---------- *)
let rec pos_of_int (n : int) : positive =
  if n = 1 then XH else if n land 1 = 0 then XO (pos_of_int (n lsr 1)) else XI (pos_of_int (n lsr 1))
let z_of_small (n : int) : z = if n = 0 then Z0 else if n > 0 then Zpos (pos_of_int n) else Zneg (pos_of_int (-n))
let z10 = z_of_small 10
let z_of_string (s : string) : z =
  let neg = String.length s > 0 && s.[0] = '-' in
  let st = if neg then 1 else 0 in
  let acc = ref Z0 in
  for i = st to String.length s - 1 do
    let d = Char.code s.[i] - 48 in
    if d < 0 || d > 9 then failwith ("bad number " ^ s);
    acc := Z.add (Z.mul !acc z10) (z_of_small d)
  done;
  if neg then Z.opp !acc else !acc
let rec int_of_pos (p : positive) : int =
  match p with XH -> 1 | XO q -> 2 * int_of_pos q | XI q -> 2 * int_of_pos q + 1
let string_of_z (x : z) : string =
  let rec go (x : z) (acc : string) : string =
    match x with
    | Z0 -> acc
    | _ -> let (q, r) = Z.quotrem x z10 in
           let d = (match r with Z0 -> 0 | Zpos p -> int_of_pos p | Zneg p -> int_of_pos p) in
           go q (string_of_int d ^ acc) in
  match x with
  | Z0 -> "0"
  | Zpos _ -> go x ""
  | Zneg p -> "-" ^ go (Zpos p) ""
let rec nat_of_int (n : int) : nat = if n <= 0 then O else S (nat_of_int (n - 1))
let rec int_of_nat (n : nat) : int = match n with O -> 0 | S m -> 1 + int_of_nat m

let atom = function A s -> s | L _ -> failwith "atom expected"
let znum e = z_of_string (atom e)

(* ---------- finite domains (C18) ---------- *)
let parse_fd (e : sexp) : fd option =
  match e with
  | L [A "i"; lo; hi] -> Some (fd_from_range (znum lo) (znum hi))
  | L (A "v" :: xs) -> fd_from_vec (List.map znum xs)       (* From<Vec>: None = panic *)
  | L [A "n"; x] -> Some (fd_from_value (znum x))
  | _ -> failwith "bad fd"
let parse_pred (e : sexp) : z -> bool =
  match e with
  | L [A "gt"; c] -> let c = znum c in (fun x -> Z.ltb c x)
  | L [A "ge"; c] -> let c = znum c in (fun x -> Z.leb c x)
  | L [A "lt"; c] -> let c = znum c in (fun x -> Z.ltb x c)
  | L [A "le"; c] -> let c = znum c in (fun x -> Z.leb x c)
  | L [A "eq"; c] -> let c = znum c in (fun x -> Z.eqb x c)
  | L [A "never"] -> (fun _ -> false)
  | L [A "always"] -> (fun _ -> true)
  | _ -> failwith "bad pred"
let show_zlist l = "[" ^ String.concat " " (List.map string_of_z l) ^ "]"
let show_fdopt = function
  | None -> "none"
  | Some (Interval (lo, hi)) when Z.ltb (z_of_small 100) (Z.sub hi lo) -> "{" ^ string_of_z lo ^ ".." ^ string_of_z hi ^ "}"
  | Some d -> show_zlist (fd_iter d)
let show_zopt = function None -> "none" | Some x -> string_of_z x
let show_bool b = if b then "true" else "false"

let run_fd (args : sexp list) : string =
  match args with
  | [A op; a] ->
    (match parse_fd a with
     | None -> "panic"
     | Some a ->
       (match op with
        | "iter" -> show_zlist (fd_iter a)
        | "iter_rev" -> show_zlist (fd_iter_rev a)
        | "min" -> (match fd_min a with None -> "panic" | Some x -> string_of_z x)
        | "max" -> (match fd_max a with None -> "panic" | Some x -> string_of_z x)
        | "is_singleton" -> show_bool (fd_is_singleton a)
        | "singleton_value" -> show_zopt (fd_singleton_value a)
        | _ -> failwith "bad fd op"))
  | [A "contains"; a; u] ->
    (match parse_fd a with None -> "panic" | Some a -> show_bool (fd_contains a (znum u)))
  | [A "copy_before"; p; a] ->
    (match parse_fd a with None -> "panic" | Some a -> show_fdopt (fd_copy_before (parse_pred p) a))
  | [A "drop_before"; p; a] ->
    (match parse_fd a with None -> "panic" | Some a -> show_fdopt (fd_drop_before (parse_pred p) a))
  | [A op; a; b] ->
    (match parse_fd a, parse_fd b with
     | Some a, Some b ->
       (match op with
        | "intersect" -> show_fdopt (fd_intersect a b)
        | "diff" -> show_fdopt (fd_diff a b)
        | "is_disjoint" -> (match fd_is_disjoint a b with None -> "panic" | Some r -> show_bool r)
        | "eq" -> show_bool (fd_eqb a b)
        | _ -> failwith "bad fd op")
     | _ -> "panic")
  | _ -> failwith "bad fd case"

let run_case (e : sexp) : string =
  match e with
  | L (A "fd" :: args) -> run_fd args
  | _ -> failwith "unknown case kind"

let () =
  let ic = if Array.length Sys.argv > 1 then open_in Sys.argv.(1) else stdin in
  let i = ref 0 in
  (try
    while true do
      let line = input_line ic in
      if String.length line > 0 && line.[0] <> '#' then begin
        let res = (try run_case (parse_sexp line) with
                   | Failure m -> "error:" ^ m
                   | Stack_overflow -> "error:stack_overflow"
                   | Not_found -> "error:not_found") in
        print_string (string_of_int !i); print_char '\t'; print_endline res;
        incr i
      end
    done
  with End_of_file -> ());
  flush stdout
