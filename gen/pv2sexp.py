"""Translator for the library relations: reads /repo/src/relation/*.rs, parses the body of each
`proto_vulcan!(...)` / `proto_vulcan_closure!(...)` with the clause grammar of /repo/macros/src/lib.rs
(Clause, ClauseInOperator, PatternMatchOperator, PatternArm, TreeTerm, Fresh, Loop, Operator, Relation,
Conjunction, Eq, Diseq) and emits

  * one s-expression definition per relation (the syntax the model driver reads), and
  * coq/Gen/RelDefs.v : the same definitions as Gallina values of type Engine.def.

It is run on every check, so the model's library relations are what the source says now."""
import os, re, sys

REPO = os.environ.get("VERIF_REPO", "/repo")
LIB = ["member", "member1", "append", "rember", "permute", "distinct", "cons", "first", "rest", "empty",
       "never", "always"]
OPERATORS = {"conde": "cond", "cond": "cond", "conda": "conda", "condu": "condu", "onceo": "onceo",
             "anyo": "loop", "dfs": "dfs"}
MATCHES = {"match": "match", "matche": "matche", "matcha": "matcha", "matchu": "matchu"}
FDRELS = ["ltefd", "ltfd", "plusfd", "minusfd", "timesfd", "diseqfd", "distinctfd", "plusz", "timesz"]

TOK = re.compile(r"\s*(==|!=|=>|[A-Za-z_][A-Za-z0-9_]*|-?\d+|\"[^\"]*\"|'[^']'|[\[\]{}()|,])")


class ParseError(Exception):
    pass


def tokenize(src):
    src = re.sub(r"//[^\n]*", "", src)
    out, pos = [], 0
    while pos < len(src):
        if src[pos:].strip() == "":
            break
        m = TOK.match(src, pos)
        if not m:
            raise ParseError("cannot tokenize at %r" % src[pos:pos + 30])
        out.append(m.group(1))
        pos = m.end()
    return out


class P:
    def __init__(self, toks):
        self.t, self.i = toks, 0

    def peek(self, k=0):
        return self.t[self.i + k] if self.i + k < len(self.t) else None

    def eat(self, x=None):
        tok = self.peek()
        if tok is None or (x is not None and tok != x):
            raise ParseError("expected %r, got %r at %d" % (x, tok, self.i))
        self.i += 1
        return tok

    # ---- terms (TreeTerm)
    def term(self):
        tok = self.peek()
        if tok == "_":
            self.eat()
            return "_"
        if tok == "[":
            self.eat()
            items, improper = [], False
            while self.peek() != "]":
                items.append(self.term())
                if self.peek() == ",":
                    self.eat()
                elif self.peek() == "|":
                    self.eat()
                    items.append(self.term())
                    improper = True
                    break
            self.eat("]")
            if improper:
                return ["ilist"] + items
            return "nil" if not items else ["list"] + items
        if tok is not None and re.fullmatch(r"-?\d+", tok):
            self.eat()
            return tok
        if tok in ("true", "false"):
            self.eat()
            return "#t" if tok == "true" else "#f"
        if tok is not None and re.fullmatch(r"[A-Za-z_][A-Za-z0-9_]*", tok):
            self.eat()
            return tok
        raise ParseError("bad term at %r" % tok)

    def try_eq(self):
        save = self.i
        try:
            a = self.term()
            op = self.peek()
            if op not in ("==", "!="):
                raise ParseError("no eq")
            self.eat()
            b = self.term()
            return ["eq" if op == "==" else "neq", a, b]
        except ParseError:
            self.i = save
            return None

    def clauses_until(self, close):
        out = []
        while self.peek() != close:
            out.append(self.clause())
            if self.peek() == ",":
                self.eat()
        self.eat(close)
        return out

    def op_clauses_until(self, close):
        # ClauseInOperator: a `[..]` conjunction stays an array of goals
        out = []
        while self.peek() != close:
            c = self.clause()
            out.append(c)
            if self.peek() == ",":
                self.eat()
        self.eat(close)
        return out

    def clause(self):
        tok = self.peek()
        if tok == "|":
            self.eat()
            xs = []
            while self.peek() != "|":
                xs.append(self.eat())
                if self.peek() == ",":
                    self.eat()
            self.eat("|")
            self.eat("{")
            return ["fresh", xs] + self.clauses_until("}")
        if tok == "loop" and self.peek(1) == "{":
            self.eat(); self.eat()
            return ["loop"] + self.op_clauses_until("}")
        if tok == "closure" and self.peek(1) == "{":
            self.eat(); self.eat()
            return ["closure"] + self.clauses_until("}")
        e = self.try_eq()
        if e is not None:
            return e
        if tok in ("true", "false"):
            self.eat()
            return tok
        if tok == "[":
            self.eat()
            return ["conj"] + self.clauses_until("]")
        if tok in MATCHES:
            self.eat()
            t = self.term()
            self.eat("{")
            arms = []
            while self.peek() != "}":
                pats = [self.term()]
                while self.peek() == "|":
                    self.eat()
                    pats.append(self.term())
                self.eat("=>")
                if self.peek() == "{":
                    self.eat()
                    body = self.clauses_until("}")
                elif self.peek() == ",":
                    body = []
                else:
                    body = [self.clause()]
                arms.append(["arm", ["pats"] + pats] + body)
                if self.peek() == ",":
                    self.eat()
            self.eat("}")
            return [MATCHES[tok], t] + arms
        if tok is not None and re.fullmatch(r"[A-Za-z_][A-Za-z0-9_]*", tok):
            if self.peek(1) == "(":
                self.eat(); self.eat()
                args = []
                while self.peek() != ")":
                    args.append(self.term())
                    if self.peek() == ",":
                        self.eat()
                self.eat(")")
                if tok in LIB:
                    return ["lib", tok] + args
                if tok in FDRELS:
                    return ["rel", tok] + args
                raise ParseError("call of unknown relation %s" % tok)
            if self.peek(1) == "{" and tok in OPERATORS:
                self.eat(); self.eat()
                return [OPERATORS[tok]] + self.op_clauses_until("}")
        raise ParseError("bad clause at %r (%d)" % (tok, self.i))


def find_macro_body(src, start):
    """src[start] is just after 'proto_vulcan!(' or 'proto_vulcan_closure!(' ; return text up to the matching paren."""
    depth, i = 1, start
    while i < len(src):
        c = src[i]
        if c == "(":
            depth += 1
        elif c == ")":
            depth -= 1
            if depth == 0:
                return src[start:i]
        i += 1
    raise ParseError("unbalanced macro body")


def translate_relation(name):
    """-> (name, params, closure?, body s-expr)"""
    path = os.path.join(REPO, "src", "relation", name + ".rs")
    src = open(path).read()
    src = src.split("#[cfg(test)]")[0]
    m = re.search(r"pub fn %s\s*<[^>]*>\s*\(([^)]*)\)" % name, src)
    if not m:
        raise ParseError("no signature for %s" % name)
    params = re.findall(r"(\w+)\s*:\s*LTerm", m.group(1))
    mm = re.search(r"proto_vulcan(_closure)?!\s*\(", src[m.end():])
    if not mm:
        raise ParseError("no macro body for %s" % name)
    closure = mm.group(1) is not None
    body_src = find_macro_body(src, m.end() + mm.end())
    # the function must consist of the macro invocation ONLY: any Rust statement before or after it
    # (an early return, a shortcut) is behaviour the translated definition would not have
    strip = lambda t: re.sub(r"//[^\n]*|/\*.*?\*/", "", t, flags=re.S).strip()
    pre = src[m.end():m.end() + mm.start()]
    brace = pre.find("{")
    if brace < 0 or strip(pre[brace + 1:]) != "":
        raise ParseError("%s: Rust code before the macro body: %r" % (name, strip(pre[brace + 1:])[:80]))
    if "{" in pre[:brace] or ";" in pre[:brace]:
        raise ParseError("%s: unexpected signature %r" % (name, pre[:brace][:80]))
    post = src[m.end() + mm.end() + len(body_src) + 1:]
    close = post.find("}")
    if close < 0 or strip(post[:close]) not in ("", ";"):
        raise ParseError("%s: Rust code after the macro body: %r" % (name, strip(post[:close if close >= 0 else 80])[:80]))
    p = P(tokenize(body_src))
    body = p.clause()
    if p.peek() is not None:
        raise ParseError("trailing tokens in %s: %r" % (name, p.t[p.i:p.i + 5]))
    return name, params, closure, body


def sx(e):
    if isinstance(e, list):
        return "(" + " ".join(sx(x) for x in e) + ")"
    return str(e)


def translate_all():
    defs, errors = [], []
    for name in LIB:
        try:
            defs.append(translate_relation(name))
        except (ParseError, OSError) as ex:
            errors.append("%s: %s" % (name, ex))
    return defs, errors


def defs_sexp_lines(defs):
    return ["(def %s (params %s) %s %s)" % (n, " ".join(ps), "closure" if c else "direct", sx(b)) for n, ps, c, b in defs]


# ---------------------------------------------------------------- Gallina output
class Names:
    def __init__(self):
        self.m = {}

    def get(self, s):
        if s not in self.m:
            self.m[s] = len(self.m) + 1
        return self.m[s]


def coq_term(t, names):
    if isinstance(t, list):
        if t[0] == "list":
            return "(list_term [%s])" % "; ".join(coq_term(x, names) for x in t[1:])
        if t[0] == "ilist":
            return "(improper_term [%s] %s)" % ("; ".join(coq_term(x, names) for x in t[1:-1]), coq_term(t[-1], names))
        raise ParseError("term %r" % t)
    if t == "nil":
        return "TEmpty"
    if t == "_":
        return "(TVar 0 true)"
    if t == "#t":
        return "(TVal (LBool true))"
    if t == "#f":
        return "(TVal (LBool false))"
    if re.fullmatch(r"-?\d+", t):
        return "(tnum (%s)%%Z)" % t
    return "(TVar %d false)" % names.get("v:" + t)


def coq_goal(g, names, relid):
    def gl(gs):
        return "[%s]" % "; ".join(coq_goal(x, names, relid) for x in gs)

    def body(cs):
        return "[%s]" % "; ".join(gl(c[1:]) if isinstance(c, list) and c[0] == "conj" else gl([c]) for c in cs)
    if g == "true":
        return "GTrue"
    if g == "false":
        return "GFalse"
    k = g[0]
    if k == "eq":
        return "(GEq %s %s)" % (coq_term(g[1], names), coq_term(g[2], names))
    if k == "neq":
        return "(GDiseq %s %s)" % (coq_term(g[1], names), coq_term(g[2], names))
    if k == "conj":
        return "(GConj %s)" % gl(g[1:])
    if k == "fresh":
        return "(GFresh [%s] %s)" % ("; ".join(str(names.get("v:" + x)) for x in g[1]), gl(g[2:]))
    if k in ("cond", "conda", "condu", "onceo", "loop", "dfs"):
        c = {"cond": "GCond", "conda": "GConda", "condu": "GCondu", "onceo": "GOnceo", "loop": "GLoop", "dfs": "GDfs"}[k]
        return "(%s %s)" % (c, body(g[1:]))
    if k == "closure":
        return "(GClosure %s)" % gl(g[1:])
    if k == "lib":
        return "(GCall %d [%s])" % (relid[g[1]], "; ".join(coq_term(x, names) for x in g[2:]))
    if k in MATCHES.values():
        mk = {"match": "MMatch", "matche": "MMatch", "matcha": "MMatcha", "matchu": "MMatchu"}[k]
        arms = "; ".join("([%s], %s)" % ("; ".join(coq_term(p, names) for p in a[1][1:]), gl(a[2:])) for a in g[2:])
        return "(GMatch %s %s [%s])" % (mk, coq_term(g[1], names), arms)
    raise ParseError("goal %r" % (g,))


def write_reldefs(defs, path):
    relid = {n: i + 1 for i, n in enumerate(LIB)}
    lines = ["(* GENERATED on every run by /verif/gen/pv2sexp.py from /repo/src/relation/*.rs -- do not edit. *)",
             "From Coq Require Import List ZArith.",
             "From PV Require Import Model.Term Model.FD Model.State Model.Engine.",
             "Import ListNotations.", ""]
    for n in LIB:
        lines.append("Definition rel_%s : nat := %d." % (n, relid[n]))
    lines.append("")
    entries = []
    for n, ps, c, b in defs:
        names = Names()
        pl = "; ".join(str(names.get("v:" + p)) for p in ps)
        lines.append("Definition def_%s : def := mkDef [%s] %s\n  %s." % (n, pl, "true" if c else "false", coq_goal(b, names, relid)))
        entries.append("(rel_%s, def_%s)" % (n, n))
    lines.append("")
    lines.append("Definition lib_defs : list (nat * def) := [%s]." % "; ".join(entries))
    txt = "\n".join(lines) + "\n"
    old = open(path).read() if os.path.exists(path) else None
    if old != txt:
        os.makedirs(os.path.dirname(path), exist_ok=True)
        open(path, "w").write(txt)
    return txt


if __name__ == "__main__":
    d, errs = translate_all()
    for l in defs_sexp_lines(d):
        print(l)
    for e in errs:
        print("ERROR", e, file=sys.stderr)
