"""Checks of the finite-domain and CLP(Z) properties C16, C17, C19."""
import itertools, random
from . import common as C
from . import progs as P
from . import pcheck
from .searchc import mk_case, seq_of

CONE = ["Proofs/FDPropProofs.vo", "Proofs/EngineProofs.vo", "Proofs/FDDen.vo", "Proofs/FDComp.vo", "Proofs/FDProg.vo", "Proofs/Complete0.vo", "Proofs/ForceC.vo", "Proofs/Unique.vo", "Proofs/QStream.vo", "Proofs/LibCor.vo"]
VARS = ["q", "r", "h"]


def rand_domain(rnd, lo=-3, hi=3):
    if rnd.random() < 0.6:
        a = rnd.randint(lo, hi)
        b = rnd.randint(a, hi)
        return ["i", a, b], list(range(a, b + 1))
    k = rnd.randint(1, 4)
    vals = [rnd.randint(lo, hi) for _ in range(k)]
    return ["v"] + vals, sorted(set(vals))


def operand(rnd, names, lo=-3, hi=3, pconst=0.3):
    return rnd.randint(lo, hi) if rnd.random() < pconst else rnd.choice(names)


def val(env, x):
    return env[x] if isinstance(x, str) else x


def holds(c, env):
    k = c[0]
    a = [val(env, x) for x in c[1:]]
    if k == "ltefd":
        return a[0] <= a[1]
    if k == "ltfd":
        return a[0] < a[1]
    if k == "plusfd":
        return a[0] + a[1] == a[2]
    if k == "minusfd":
        return a[0] - a[1] == a[2]
    if k == "timesfd":
        return a[0] * a[1] == a[2]
    if k == "diseqfd":
        return a[0] != a[1]
    if k == "distinctfd":
        return len(set(a)) == len(a)
    if k == "eq":
        return a[0] == a[1]
    if k == "neq":
        return a[0] != a[1]
    if k == "neq2":      # [a, b] != [c, d]
        return (a[0], a[1]) != (a[2], a[3])
    raise ValueError(k)


def gen_fd_program(rnd, hidden=False, shape="vars"):
    """-> (query vars, body, spec) ; spec = (names, domains dict name->list of ints, constraint list, query term builder)"""
    names = ["q", "r"] + (["h"] if hidden else [])
    doms, dom_goals = {}, []
    for n in names:
        d, vals = rand_domain(rnd)
        doms[n] = vals
        dom_goals.append(["dom", n, d])
    if rnd.random() < 0.3:
        # a second domain for one variable: intersection
        n = rnd.choice(names)
        d, vals = rand_domain(rnd)
        doms[n] = [x for x in doms[n] if x in vals]
        dom_goals.append(["dom", n, d])
    cons, goals = [], []
    for _ in range(rnd.randint(1, 4)):
        k = rnd.choice(["ltefd", "ltfd", "plusfd", "minusfd", "timesfd", "diseqfd", "distinctfd", "eq"])
        if k in ("ltefd", "ltfd", "diseqfd"):
            c = [k, operand(rnd, names), operand(rnd, names)]
            goals.append(["rel"] + c)
        elif k in ("plusfd", "minusfd", "timesfd"):
            c = [k, operand(rnd, names), operand(rnd, names), operand(rnd, names)]
            goals.append(["rel"] + c)
        elif k == "distinctfd":
            ops = [operand(rnd, names, pconst=0.2) for _ in range(rnd.randint(2, 3))]
            c = [k] + ops
            goals.append(["rel", k, ["list"] + ops])
        else:
            c = ["eq", rnd.choice(names), operand(rnd, names, pconst=0.5)]
            goals.append(["eq", c[1], c[2]])
        cons.append(c)
    body = dom_goals + goals
    order = rnd.random()
    if order < 0.5:
        rnd.shuffle(body)                      # constraints may be posted before the domains
    return names, doms, cons, body


def brute(names, doms, cons, nq):
    sols = set()
    for tup in itertools.product(*[doms[n] for n in names]):
        env = dict(zip(names, tup))
        if all(holds(c, env) for c in cons):
            sols.add(tup[:nq])
    return sorted(sols)


def answer_ints(res, shape):
    out = []
    for a in res.answers:
        terms = [P.parse_all(t)[0] for t in a[0]]
        flat = []

        def walk(e):
            if isinstance(e, list):
                for x in e:
                    if x not in (".", "{}") and not (isinstance(x, str) and x in ("Pair", "Tri", "Wrap", "Named")):
                        walk(x)
            else:
                flat.append(e)
        for t in terms:
            walk(t)
        try:
            out.append(tuple(int(x) for x in flat))
        except ValueError:
            out.append(tuple(flat))
    return out


def oracle_fd(prop):
    def oracle(cases, impl, model):
        fails = []
        for k, (c, i) in enumerate(zip(cases, impl)):
            if "spec" not in c:
                continue
            names, doms, cons = c["spec"]
            if i.error:
                if i.error.startswith("panic"):
                    fails.append({"case_index": k, "what": "panic on a well-formed finite-domain program: %s" % i.error})
                continue
            if i.end != "done":
                continue
            got = answer_ints(i, c.get("shape"))
            nq = c.get("nq", 2)
            exp = brute(names, doms, cons, nq)
            if prop == "C16":
                bad = [g for g in got if not (len(g) == nq and all(isinstance(x, int) for x in g) and tuple(g) in set(exp))]
                if bad:
                    fails.append({"case_index": k, "what": "an answer violates a posted constraint or a domain (or is not labeled): %s" % (bad[:3],),
                                  "brute_force_solutions": exp[:20]})
            else:
                if sorted(got) != [tuple(e) for e in exp]:
                    missing = [e for e in exp if tuple(e) not in got]
                    dup = sorted({g for g in got if got.count(g) > 1})
                    fails.append({"case_index": k, "what": "labeling does not return every solution exactly once (missing %s, repeated %s)" % (missing[:3], dup[:3]),
                                  "brute_force_solutions": exp[:20]})
        return fails
    return oracle


def build_cases(rnd, n):
    cases = []
    for _ in range(n):
        hidden = rnd.random() < 0.35
        names, doms, cons, body = gen_fd_program(rnd, hidden=hidden)
        shape = rnd.choice(["vars", "vars", "list", "comp"])
        if hidden:
            body = [["fresh", ["h"]] + body]
        if shape == "vars":
            cases.append(mk_case([], ["q", "r"], body, spec=(names, doms, cons), mode="bag_terms", budget=20000, maxans=200))
        else:
            inner = [["fresh", ["q", "r"] if not hidden else ["q", "r"]] + body +
                     [["eq", "t", ["list", "q", "r"] if shape == "list" else ["comp", "Pair", "q", ["comp", "Wrap", "r"]]]]]
            cases.append(mk_case([], ["t"], inner, spec=(names, doms, cons), mode="bag_terms", budget=20000, maxans=200, shape=shape))
    return cases


def fixed_cases():
    """the witnesses of the defects found on the pinned tree, kept as a corpus"""
    out = []
    out.append((["dom", "q", ["i", 1, 3]], ["rel", "plusfd", "q", "q", "q"], ["eq", "r", 0]))
    out.append((["dom", ["list", "q", "r"], ["i", -2, 2]], ["rel", "timesfd", "q", "r", -2]))
    out.append((["dom", ["list", "q", "r"], ["i", -2, 2]], ["fresh", ["w"], ["dom", "w", ["i", -4, 4]], ["rel", "timesfd", "q", "r", "w"], ["rel", "ltefd", "w", -1]]))
    out.append((["eq", "q", "r"], ["dom", "r", ["i", 1, 2]], ["rel", "plusfd", "q", "q", 3], ["rel", "ltefd", "r", 1]))
    res = []
    for body in out:
        names = ["q", "r"]
        res.append(list(body))
    return res


def run_fd(pid, tier, seed, replay=None):
    rnd = random.Random(seed)
    n = 500 if tier == "quick" else 5000
    cases = build_cases(rnd, n)
    # products over non-negative domains that contain zero, and other sign patterns of timesfd / plusfd / minusfd
    for _ in range(n // 4):
        lo1, lo2 = rnd.choice([(0, 0), (0, 1), (1, 0), (-2, 0), (0, -2), (-3, -1)])
        d1 = list(range(lo1, lo1 + rnd.randint(2, 5)))
        d2 = list(range(lo2, lo2 + rnd.randint(1, 4)))
        rel = rnd.choice(["timesfd", "timesfd", "plusfd", "minusfd"])
        third = rnd.choice([0, 0, rnd.randint(0, 6), "h"])
        names = ["q", "r"] + (["h"] if third == "h" else [])
        doms = {"q": d1, "r": d2}
        body = [["dom", "q", ["i", d1[0], d1[-1]]], ["dom", "r", ["i", d2[0], d2[-1]]]]
        if third == "h":
            d3 = list(range(0, rnd.randint(1, 4)))
            doms["h"] = d3
            body.append(["dom", "h", ["i", d3[0], d3[-1]]])
        body.append(["rel", rel, "q", "r", third])
        if third == "h":
            body = [["fresh", ["h"]] + body]
        cases.append(mk_case([], ["q", "r"], body, spec=(names, doms, [[rel, "q", "r", third]]), mode="bag_terms", budget=20000, maxans=200))
    # products whose result domain spans negative values, over mixed-sign / all-negative factor domains
    for _ in range(n // 6):
        lo1, w1 = rnd.choice([(0, 3), (-3, 2), (-2, 3), (-3, 1), (1, 2), (-1, 1)])
        lo2, w2 = rnd.choice([(-2, 3), (1, 1), (-3, 2), (0, 2), (-2, 1)])
        d1, d2 = list(range(lo1, lo1 + w1 + 1)), list(range(lo2, lo2 + w2 + 1))
        d3 = list(range(-6, 7))
        order = rnd.choice([["q", "r"], ["r", "q"]])
        con = ["timesfd", order[0], order[1], "h"]
        body = [["dom", "q", ["i", d1[0], d1[-1]]], ["dom", "r", ["i", d2[0], d2[-1]]], ["dom", "h", ["i", -6, 6]], ["rel"] + con]
        if rnd.random() < 0.3:
            rnd.shuffle(body)
        shown = rnd.random() < 0.5
        if shown:
            cases.append(mk_case([], ["q", "r", "h"], body, spec=(["q", "r", "h"], {"q": d1, "r": d2, "h": d3}, [con]), mode="bag_terms",
                                 budget=30000, maxans=300, nq=3))
        else:
            cases.append(mk_case([], ["h"], [["fresh", ["q", "r"]] + body], spec=(["h", "q", "r"], {"q": d1, "r": d2, "h": d3}, [con]),
                                 mode="bag_terms", budget=30000, maxans=300, nq=1))
    # distinctfd over three variables: elements bound by == in any value order, before or after the domains are
    # posted, one of them aliased to another domain variable, or all bound by one unification
    for _ in range(n // 5):
        vs = ["q", "r", "h"]
        dom = list(range(1, 4)) if rnd.random() < 0.7 else list(range(0, 4))
        vals = [rnd.choice(dom) for _ in range(3)]
        binds = [["eq", v, x] for v, x in zip(vs, vals)]
        rnd.shuffle(binds)
        binds = binds[:rnd.randint(1, 3)]
        cons = [["distinctfd"] + vs] + [["eq", b[1], b[2]] for b in binds]
        domg = ["dom", ["list"] + vs, ["i", dom[0], dom[-1]]]
        dist = ["rel", "distinctfd", ["list"] + vs]
        k = rnd.random()
        if k < 0.35:
            body = [dist] + binds[:2] + [domg] + binds[2:]
        elif k < 0.55:
            body = [dist, domg, ["eq", ["list"] + vs, ["list"] + vals]]
            cons = [["distinctfd"] + vs] + [["eq", v, x] for v, x in zip(vs, vals)]
        elif k < 0.8:
            # alias: the third element's domain lives under another variable's key
            body = [["fresh", ["a"], ["dom", ["list", "q", "r", "a"], ["i", dom[0], dom[-1]]], ["eq", "h", "a"], dist] + binds]
        else:
            body = [domg, dist] + binds
            rnd.shuffle(body)
        cases.append(mk_case([], vs, body, spec=(vs, {v: dom for v in vs}, cons), mode="bag_terms", budget=30000, maxans=300, nq=3))
    # tree disequalities (!=) on finite-domain variables whose values are fixed by propagation (a domain
    # shrinking to one value), never by ==: the != must be re-checked when the domain binds the variable
    for _ in range(n // 5):
        a = rnd.randint(-2, 2)
        w = rnd.randint(1, 3)
        dq = list(range(a - rnd.randint(0, 2), a + w + 1))
        dr = list(range(a - 1, a + 2))
        pin = rnd.choice([[["ltefd", "q", a], ["ltefd", a, "q"]], [["plusfd", "q", 0, a]], [["ltefd", "q", dq[0]]], [["ltefd", dq[-1], "q"]],
                          [["minusfd", "q", a, 0]], [["ltefd", "q", "r"], ["ltefd", "r", dq[0]]]])
        tree = rnd.choice([[["neq", "q", a]], [["neq", "q", dq[0]]], [["neq", "q", dq[-1]]], [["neq", "q", "r"]],
                           [["neq2", "q", "r", a, a]], [["neq2", "q", "r", dq[0], dr[0]]], [["neq", "r", a], ["neq", "q", "r"]]])
        body = [["dom", "q", ["i", dq[0], dq[-1]]], ["dom", "r", ["i", dr[0], dr[-1]]]]
        cons = []
        for c in pin:
            body.append(["rel"] + c); cons.append(c)
        tg = []
        for c in tree:
            tg.append(["neq", c[1], c[2]] if c[0] == "neq" else ["neq", ["list", c[1], c[2]], ["list", c[3], c[4]]]); cons.append(c)
        # the disequalities first (stored, waiting), or shuffled anywhere
        body = tg + body if rnd.random() < 0.6 else body + tg
        if rnd.random() < 0.3:
            rnd.shuffle(body)
        cases.append(mk_case([], ["q", "r"], body, spec=(["q", "r"], {"q": dq, "r": dr}, cons), mode="bag_terms", budget=20000, maxans=200))
    # a second domain (or an equation between two domain variables) that removes only interior values:
    # the intersection keeps both bounds
    for _ in range(n // 5):
        lo = rnd.randint(-3, 0)
        full = list(range(lo, lo + rnd.randint(3, 6)))
        inner = [v for v in full[1:-1] if rnd.random() < 0.5]
        holed = [full[0]] + inner + [full[-1]]
        if len(holed) == len(full):
            holed.remove(full[1])
        first = rnd.choice([["dom", "q", ["i", full[0], full[-1]]], ["dom", "q", ["v"] + full]])
        second = ["dom", rnd.choice(["q", "r"]), ["v"] + holed]
        kind = rnd.random()
        if second[1] == "q":
            body = [first, second, ["dom", "r", ["i", 0, 1]]]
            doms = {"q": holed, "r": [0, 1]}
            cons = []
        else:
            link = rnd.choice([["eq", "q", "r"], ["eq", "r", "q"]])
            body = [first, second, link]
            doms = {"q": full, "r": holed}
            cons = [["eq", "q", "r"]]
        if kind < 0.4:
            extra = rnd.choice([["plusfd", "q", 1, "r"], ["ltefd", "r", "q"], ["diseqfd", "q", "r"], ["minusfd", "q", "r", 0]])
            body.append(["rel"] + extra)
            cons.append(extra)
        if rnd.random() < 0.4:
            rnd.shuffle(body)
        cases.append(mk_case([], ["q", "r"], body, spec=(["q", "r"], doms, cons), mode="bag_terms", budget=20000, maxans=200))
    # ONE unification that binds several variables at once, some with a domain and some without (list against list):
    # every domain in the extension must be handed over / checked, whatever order the bindings are visited in
    for _ in range(n // 4):
        lo = rnd.randint(-2, 1)
        dq = list(range(lo, lo + rnd.randint(2, 4)))
        dr = list(range(lo + rnd.randint(-1, 1), lo + rnd.randint(2, 5)))
        k = rnd.choice(dq + [dq[-1] + 1, dq[0] - 1])
        pick = rnd.randint(0, 4)
        if pick == 0:
            uni = ["eq", ["list", "a", "q"], ["list", "b", k]]; cons = [["eq", "q", k]]
        elif pick == 1:
            uni = ["eq", ["list", "q", "a"], ["list", "r", "b"]]; cons = [["eq", "q", "r"]]
        elif pick == 2:
            uni = ["eq", ["list", "a", "q", "b"], ["list", 1, "r", "a"]]; cons = [["eq", "q", "r"]]
        elif pick == 3:
            uni = ["eq", ["list", "a", "b", "r"], ["list", "b", 7, "q"]]; cons = [["eq", "q", "r"]]
        else:
            uni = ["eq", ["comp", "Pair", "a", ["list", "q", "r"]], ["comp", "Pair", ["list", "b"], ["list", k, "c"]]]; cons = [["eq", "q", k]]
        goals = [["dom", "q", ["i", dq[0], dq[-1]]], ["dom", "r", ["v"] + dr], uni]
        if rnd.random() < 0.4:
            extra = rnd.choice([["ltefd", "q", "r"], ["diseqfd", "q", "r"], ["plusfd", "q", 0, "r"]])
            goals.append(["rel"] + extra); cons.append(extra)
        if rnd.random() < 0.3:
            goals = [goals[2], goals[0], goals[1]] + goals[3:]
        body = [["fresh", ["a", "b", "c"]] + goals]
        cases.append(mk_case([], ["q", "r"], body, spec=(["q", "r"], {"q": dq, "r": dr}, cons), mode="bag_terms", budget=20000, maxans=200))
    # hidden domain variables aliased by var-var unification (either orientation, before or after the constraint is
    # posted) whose constraint is still stored when the answer is reified: the domain then lives under the representative
    for _ in range(n // 3):
        names = ["q", "r", "h", "g"]
        doms, body = {}, []
        for v in names:
            d, vals = rand_domain(rnd, 0, 4)
            if len(vals) < 2:
                d, vals = ["i", 0, 3], [0, 1, 2, 3]
            doms[v] = vals
            body.append(["dom", v, d])
        a, b = rnd.choice([("h", "g"), ("g", "h"), ("h", "q"), ("q", "h"), ("g", "r")])
        alias = ["eq", a, b]
        cons = [["eq", a, b]]
        rels = []
        for _ in range(rnd.randint(1, 2)):
            k = rnd.choice(["ltefd", "ltfd", "diseqfd", "plusfd", "minusfd"])
            ops = [rnd.choice(["h", "g", "h", "g", "q", "r"]) for _ in range(3 if k in ("plusfd", "minusfd") else 2)]
            rels.append(["rel", k] + ops); cons.append([k] + ops)
        tail = [alias] + rels
        rnd.shuffle(tail)
        cases.append(mk_case([], ["q", "r"], [["fresh", ["h", "g"]] + body + tail], spec=(names, doms, cons), mode="bag_terms", budget=30000, maxans=300))
    # propagation chains: sparse domains with gaps, a binary constraint posted first, then an arithmetic constraint whose
    # own pruning makes one operand a singleton - which wakes the first constraint, which binds the other operand while
    # the arithmetic constraint is still running: it must be checked again before it is stored
    for _ in range(n // 2):
        def sparse():
            return sorted(rnd.sample(range(-3, 9), rnd.randint(2, 3)))
        dq, dr = sparse(), sparse()
        ops = ["q", "r"]; rnd.shuffle(ops)
        first = [rnd.choice(["diseqfd", "ltfd", "ltefd"])] + ops
        rel = rnd.choice(["plusfd", "plusfd", "minusfd", "timesfd"])
        c = rnd.randint(-4, 10)
        args = rnd.choice([["q", "r", c], ["r", "q", c], ["q", c, "r"], [c, "q", "r"], ["r", c, "q"], ["q", "r", "h"], ["h", "q", "r"]])
        names, doms = ["q", "r"], {"q": dq, "r": dr}
        body = [["dom", "q", ["v"] + dq], ["dom", "r", ["v"] + dr]]
        if "h" in args:
            dh = sparse(); names = names + ["h"]; doms["h"] = dh
            body.append(["dom", "h", ["v"] + dh])
        tail = [["rel"] + first, ["rel", rel] + args]
        if rnd.random() < 0.25:
            tail.reverse()
        body = body + tail
        if "h" in args:
            body = [["fresh", ["h"]] + body]
        cases.append(mk_case([], ["q", "r"], body, spec=(names, doms, [first, [rel] + args]), mode="bag_terms", budget=20000, maxans=200))
    # corpus
    cases.append(mk_case([], ["q", "r"], [["dom", "q", ["i", 1, 3]], ["rel", "plusfd", "q", "q", "q"], ["dom", "r", ["i", 0, 0]]],
                         spec=(["q", "r"], {"q": [1, 2, 3], "r": [0]}, [["plusfd", "q", "q", "q"]]), mode="bag_terms"))
    cases.append(mk_case([], ["q", "r"], [["dom", ["list", "q", "r"], ["i", -2, 2]], ["rel", "timesfd", "q", "r", -2]],
                         spec=(["q", "r"], {"q": [-2, -1, 0, 1, 2], "r": [-2, -1, 0, 1, 2]}, [["timesfd", "q", "r", -2]]), mode="bag_terms"))
    cases.append(mk_case([], ["q", "r"], [["eq", "q", "r"], ["dom", "r", ["i", 1, 2]], ["rel", "plusfd", "q", "q", 3], ["rel", "ltefd", "r", 1]],
                         spec=(["q", "r"], {"q": [1, 2], "r": [1, 2]}, [["eq", "q", "r"], ["plusfd", "q", "q", 3], ["ltefd", "r", 1]]), mode="bag_terms"))
    return pcheck.run_check(pid, tier, seed, cases, "bag_terms", oracle_fd(pid), cone=CONE, replay=replay,
        rule="programs with 2 query variables (optionally a hidden third), interval and sparse domains over -3..3 (possibly two per variable), "
             "1-4 constraints of every kind (ltefd, ltfd, plusfd, minusfd, timesfd, diseqfd, distinctfd, ==) with arbitrary operand aliasing and "
             "constants, posted in the given or a random order (constraints before domains included); query variables as such, inside a list "
             "or inside nested compounds; oracle: brute-force enumeration of the domain product projected on the query variables; "
             "non-trivial = at least one answer",
        assumptions=["answer multisets are compared with the model (propagation order depends on hash-set iteration in Rust)"],
        extra_cov=lambda cs, i, m: {"with_hidden_variable": sum(1 for c in cs if "h" in c.get("spec", ([],))[0]),
                                    "answers_total": sum(len(x.answers) for x in i)})


def run_c16(tier, seed, replay=None):
    return run_fd("C16", tier, seed, replay)


def run_c17(tier, seed, replay=None):
    return run_fd("C17", tier, seed + 1000, replay)


# ----------------------------------------------------------------------------- C19
def run_c19(tier, seed, replay=None):
    rnd = random.Random(seed)
    cases = []
    R = range(-3, 4)

    def add(goals, spec):
        cases.append(mk_case([], ["q", "r", "t"], goals, zspec=spec, mode="bag_terms"))
    # every groundness pattern and posting order for one constraint
    for rel in ("plusz", "timesz"):
        for a in R:
            for b in R:
                for w in (a + b if rel == "plusz" else a * b, rnd.randint(-6, 6)):
                    vals = {"q": a, "r": b, "t": w}
                    for mask in range(8):
                        binds = [["eq", n, vals[n]] for j, n in enumerate(["q", "r", "t"]) if mask >> j & 1]
                        con = ["rel", rel, "q", "r", "t"]
                        for pos in range(len(binds) + 1):
                            if rnd.random() < (0.25 if tier == "quick" else 1.0):
                                add(binds[:pos] + [con] + binds[pos:], (rel, vals, mask))
    # chains and aliasing
    for _ in range(300 if tier == "quick" else 3000):
        goals = []
        for _ in range(rnd.randint(1, 3)):
            goals.append(["rel", rnd.choice(["plusz", "timesz"])] + [rnd.choice(["q", "r", "t", rnd.randint(-3, 3)]) for _ in range(3)])
        for n in ["q", "r", "t"]:
            if rnd.random() < 0.6:
                goals.append(["eq", n, rnd.randint(-3, 3)])
        rnd.shuffle(goals)
        cases.append(mk_case([], ["q", "r", "t"], goals, zchain=True, mode="bag_terms"))

    # systems solved by propagation alone (no unification after the last constraint): every operand position as the solved one
    for _ in range(300 if tier == "quick" else 3000):
        a, b = rnd.randint(-3, 3), rnd.randint(-3, 3)
        pend = rnd.choice([["rel", "plusz", "r", a, "q"], ["rel", "timesz", "r", 2, "q"], ["rel", "plusz", "r", "r", "q"], ["rel", "plusz", a, "r", "q"],
                           ["rel", "timesz", "q", "r", "t"], ["rel", "plusz", "q", "t", "r"]])
        rel = rnd.choice(["plusz", "timesz"])
        x = rnd.randint(-3, 3)
        res_ = a + x if rel == "plusz" else a * x
        solver = rnd.choice([["rel", rel, a, "r", res_], ["rel", rel, "r", a, res_] if rel == "plusz" or a != 0 else ["rel", rel, a, "r", res_],
                             ["rel", rel, a, x, "r"]])
        goals = [pend, solver] if rnd.random() < 0.7 else [solver, pend]
        cases.append(mk_case([], ["q", "r", "t"], goals, zchain=True, zsolve=True, mode="bag_terms"))

    # an operand solved THROUGH AN ALIAS: a constraint waits on q, q is unified with another variable (either orientation),
    # and a second constraint with two ground operands then binds that variable - with no unification afterwards; the
    # waiting constraint must still be re-run (it names q, the binding is recorded under the representative)
    for _ in range(300 if tier == "quick" else 3000):
        c1 = rnd.randint(-3, 3)
        pend = rnd.choice([["rel", "plusz", "q", c1, "r"], ["rel", "plusz", c1, "q", "r"], ["rel", "plusz", "q", "q", c1], ["rel", "timesz", "q", c1, "r"],
                           ["rel", "plusz", "r", c1, "q"], ["rel", "timesz", "q", "q", "r"], ["rel", "plusz", "q", "r", c1]])
        alias = rnd.choice([["eq", "q", "t"], ["eq", "t", "q"]])
        rel = rnd.choice(["plusz", "plusz", "timesz"])
        a, b = rnd.randint(-3, 3), rnd.randint(-3, 3)
        if rel == "timesz" and a == 0:
            a = 1
        w = a + b if rel == "plusz" else a * b
        solver = rnd.choice([["rel", rel, a, b, "t"], ["rel", rel, a, "t", w], ["rel", rel, "t", a, (b + a if rel == "plusz" else b * a)]])
        goals = rnd.choice([[pend, alias, solver], [alias, pend, solver], [pend, alias, solver]])
        if rnd.random() < 0.4:
            # ... or the alias is simply bound by == afterwards (no constraint does the binding)
            goals = [pend, alias, ["eq", "t", rnd.randint(-3, 3)]]
        cases.append(mk_case([], ["q", "r", "t"], goals, zalias=True, mode="bag_terms"))
    # a tree disequality waiting on the operand a constraint solves (each operand position), and chains in which the solving
    # constraint is woken by a later unification while another constraint waits on the solved operand
    for _ in range(300 if tier == "quick" else 3000):
        a, b = rnd.randint(-3, 3), rnd.randint(-3, 3)
        rel = rnd.choice(["plusz", "plusz", "timesz"])
        if rel == "timesz" and a == 0:
            a = 2
        w = a + b if rel == "plusz" else a * b
        solver = rnd.choice([["rel", rel, a, "q", w], ["rel", rel, "q", a, (b + a if rel == "plusz" else b * a)], ["rel", rel, a, b, "q"]])
        form = rnd.random()
        if form < 0.5:
            ne = ["neq", "q", rnd.choice([b, b, w, b + 1])]
            goals = [ne, solver] if rnd.random() < 0.7 else [solver, ne]
        else:
            # the known operand arrives later, by unification
            late = ["rel", rel, a, "q", "t"] if rnd.random() < 0.6 else ["rel", rel, "q", a, "t"]
            waiting = rnd.choice([["rel", "plusz", "q", 1, "r"], ["rel", "timesz", "q", 2, "r"], ["neq", "q", b]])
            goals = [waiting, late, ["eq", "t", w if late[2] == a else (b + a if rel == "plusz" else b * a)]]
            if rnd.random() < 0.3:
                goals = [late, waiting, goals[2]]
        cases.append(mk_case([], ["q", "r", "t"], goals, zchain=True, mode="bag_terms"))

    def oracle(cs, impl, model):
        fails = []
        for k, (c, i) in enumerate(zip(cs, impl)):
            if i.error:
                if i.error.startswith("panic"):
                    fails.append({"case_index": k, "what": "plusz/timesz panicked: %s" % i.error})
                continue
            if c.get("zalias") and i.end == "done":
                sols = []
                for q_ in range(-30, 31):
                    for r_ in range(-120, 121):          # operands are within -9..9: sums and products within -81..81
                        env = {"q": q_, "r": r_, "t": q_}
                        if all((lambda x_, y_, z_: (x_ + y_ if g[1] == "plusz" else x_ * y_) == z_)(*[val(env, o) for o in g[2:]])
                               for g in c["body"] if g[0] == "rel"):
                            sols.append((q_, r_, q_))
                if not sols and i.answers:
                    fails.append({"case_index": k, "what": "no integers satisfy the posted constraints but an answer was returned: %s" % (i.answers[0][0],)})
                elif len(sols) == 1:
                    want = [str(x) for x in sols[0]]
                    if len(i.answers) != 1 or list(i.answers[0][0]) != want:
                        fails.append({"case_index": k, "what": "the constraints determine (q, r, t) = %s but the answers are %s" % (sols[0], [a_[0] for a_ in i.answers][:3])})
                continue
            if c.get("zsolve") and i.end == "done":
                # solve the small system by brute force over -40..40 and compare the determined variables
                vars_ = ["q", "r", "t"]
                sols = []
                for q_ in range(-20, 21):
                    for r_ in range(-20, 21):
                        env = {"q": q_, "r": r_, "t": None}
                        ok, tvals = True, None
                        for g in c["body"]:
                            ops = g[2:]
                            if "t" in ops:
                                continue
                            x_, y_, z_ = [val(env, o) for o in ops]
                            if (x_ + y_ if g[1] == "plusz" else x_ * y_) != z_:
                                ok = False
                                break
                        if ok:
                            sols.append((q_, r_))
                uses_t = any("t" in g[2:] for g in c["body"])
                if not uses_t:
                    if not sols and i.answers:
                        fails.append({"case_index": k, "what": "the system has no integer solution but an answer was returned: %s" % (i.answers[0][0],)})
                    for a_ in i.answers:
                        for idx, name in enumerate(["q", "r"]):
                            vals = {s_[idx] for s_ in sols}
                            if len(vals) == 1 and len(sols) <= 41 * 41 and a_[0][idx].lstrip("-").isdigit() is False and len({s_ for s_ in sols}) == 1:
                                fails.append({"case_index": k, "what": "%s is determined (= %d) by the posted constraints but was left unbound" % (name, list(vals)[0])})
            if "zspec" in c:
                rel, vals, mask = c["zspec"]
                a, b, w = vals["q"], vals["r"], vals["t"]
                op = (lambda x, y: x + y) if rel == "plusz" else (lambda x, y: x * y)
                known = [mask >> j & 1 for j in range(3)]
                got = i.answers
                if sum(known) == 3:
                    exp = 1 if op(a, b) == w else 0
                    if len(got) != exp:
                        fails.append({"case_index": k, "what": "all operands ground: %d %s %d = %d must %s" % (a, rel, b, w, "succeed" if exp else "fail")})
                elif sum(known) == 2:
                    # solve for the unknown
                    if not known[2]:
                        sols = [op(a, b)]
                    elif not known[1]:
                        sols = [y for y in range(-40, 41) if op(a, y) == w]
                        inf = rel == "timesz" and a == 0 and w == 0
                    else:
                        sols = [x for x in range(-40, 41) if op(x, b) == w]
                        inf = rel == "timesz" and b == 0 and w == 0
                    inf = (not known[1] and rel == "timesz" and a == 0 and w == 0) or (not known[0] and rel == "timesz" and b == 0 and w == 0)
                    if inf:
                        ok = len(got) == 1 and any(t.startswith("_") for t in got[0][0])
                        if not ok:
                            fails.append({"case_index": k, "what": "every integer solves the equation: the goal must succeed and stay constrained"})
                    elif not sols:
                        if got:
                            fails.append({"case_index": k, "what": "no integer solves the equation but the goal succeeded"})
                    else:
                        idx = known.index(0)
                        if len(got) != 1 or got[0][0][idx] != str(sols[0]):
                            fails.append({"case_index": k, "what": "two operands ground: the third must be bound to %d" % sols[0]})
                else:
                    if len(got) != 1:
                        fails.append({"case_index": k, "what": "fewer than two operands ground: the goal must succeed (constraint kept)"})
            elif c.get("zchain") and i.end == "done":
                # every answer with all three query variables ground must satisfy every constraint
                for a in i.answers:
                    try:
                        env = dict(zip(["q", "r", "t"], [int(x) for x in a[0]]))
                    except ValueError:
                        continue
                    for g in c["body"]:
                        if g[0] == "rel":
                            x, y, z = [val(env, o) for o in g[2:]]
                            if (x + y if g[1] == "plusz" else x * y) != z:
                                fails.append({"case_index": k, "what": "a ground answer violates %s" % (g,)})
                                break
        return fails
    return pcheck.run_check("C19", tier, seed, cases, "bag_terms", oracle, cone=["Proofs/CLPZProofs.vo", "Proofs/EngineProofs.vo", "Proofs/FDComp.vo"], replay=replay,
        rule="plusz/timesz over operand values -3..3 (exact and non-exact products, zero divisors), all 8 groundness patterns, the constraint "
             "posted before/between/after the bindings (sampled in the quick tier); random chains of 1-3 constraints with aliasing and "
             "constants under shuffled bindings; operands solved through a variable alias (var-var unification, either orientation) with "
             "no unification afterwards; oracle: integer arithmetic; non-trivial = at least one answer",
        extra_cov=lambda cs, i, m: {"pattern_cases": sum(1 for c in cs if "zspec" in c)})
