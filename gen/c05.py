from .searchc import run_c05 as run
