"""Checks of the search-engine properties C05-C10 (and helpers shared with C02-C04, C12)."""
import random
from . import common as C
from . import progs as P
from . import pcheck
from .refsem import Ref, Diverged, Unsupported

CONE = ["Proofs/EngineProofs.vo", "Gen/RelDefs.vo", "Proofs/SemProofs.vo", "Proofs/MonoProofs.vo", "Proofs/FairProofs.vo", "Proofs/Fair10.vo"]
TREE = ["eq", "eq", "neq", "cond", "cond", "fresh", "conj", "member", "append", "closure", "true", "false"]


def reference(case, libdefs):
    """canonical answers of the case in Prolog order, or None when the reference does not apply"""
    try:
        ref = Ref(defs=case.get("defs", []), libdefs=libdefs)
        return ref.run(case["qvars"], case["body"])
    except (Diverged, Unsupported, RecursionError):
        return None


def mk_case(defs, qvars, body, maxans=40, budget=4000, **meta):
    c = {"line": P.prog_line(defs, qvars, body, maxans=maxans, budget=budget), "defs": defs, "qvars": qvars, "body": body}
    c.update(meta)
    return c


def gen_tree_cases(rnd, n, allow, wrap=None, depth=3, maxans=40, budget=4000, nbody=(1, 3)):
    out = []
    for _ in range(n):
        g = P.Gen(rnd, allow=allow, depth=depth)
        q = ["q", "r"][:rnd.randint(1, 2)]
        body = [g.goal(list(q), dfs=(wrap == "dfs")) for _ in range(rnd.randint(*nbody))]
        if wrap == "dfs":
            body = [["dfs"] + body]
        out.append(mk_case([], q, body, maxans=maxans, budget=budget))
    return out


def seq_of(res):
    return [(a[0], a[1]) for a in res.answers]


def bag_of(seq):
    return sorted((t, tuple(sorted(map(str, c)))) for t, c in seq)


def show_ref(ref):
    return [[list(t), sorted(map(str, c))] for t, c in ref][:12]


# ----------------------------------------------------------------------------- C05
def oracle_c05(cases, impl, model):
    _, libdefs, _ = P.libdefs_path()
    fails = []
    for k, (c, i) in enumerate(zip(cases, impl)):
        if i.error:
            continue
        ref = reference(c, libdefs)
        if ref is None:
            continue
        c["ref_applied"] = True
        got = seq_of(i)
        if i.end == "done":
            if got != ref:
                pos = next((j for j in range(min(len(got), len(ref))) if got[j] != ref[j]), min(len(got), len(ref)))
                f = {"case_index": k, "what": "depth-first answers differ from the reference order at position %d" % pos,
                     "reference": show_ref(ref)}
                # same answers, only their order differs, the engine model predicts exactly this sequence (answers and
                # steps), and the answers differ in structure (lists/compounds vs none): the known reification effect
                f["order_only"] = bag_of(got) == bag_of(ref)
                f["model_agrees"] = (not model[k].error) and seq_of(model[k]) == got and [a[3] for a in model[k].answers] == [a[3] for a in i.answers]
                shapes = {("(" in t or "{" in t) for a, _ in got for t in a}
                f["mixed_structure"] = len(shapes) > 1
                fails.append(f)
        elif got != ref[:len(got)]:
            fails.append({"case_index": k, "what": "delivered answers are not a prefix of the reference order", "reference": show_ref(ref)})
    return fails


def known_c05(case, failure, known_ids):
    if ("dfs_order_after_reification" in known_ids and failure.get("order_only") and failure.get("model_agrees")
            and failure.get("mixed_structure")):
        return "dfs_order_after_reification"
    return None


def run_c05(tier, seed, replay=None):
    rnd = random.Random(seed)
    n = 500 if tier == "quick" else 4000
    cases = gen_tree_cases(rnd, n, TREE, wrap="dfs")
    # conjunctions of multi-answer goals: where bind_dfs meets Cons/Lazy streams
    for _ in range(n // 5):
        a = ["list"] + rnd.sample([1, 2, 3, 4, 5], rnd.randint(2, 4))
        b = ["list"] + rnd.sample([6, 7, 8, 9], rnd.randint(2, 4))
        body = [["dfs", ["lib", "member", "q", a], ["lib", "member", "r", b]] if rnd.random() < 0.5 else
                ["dfs", ["cond", ["lib", "member", "q", a], ["eq", "q", 0]], ["cond", ["eq", "r", 1], ["lib", "member", "r", b], ["eq", "r", 2]]]]
        cases.append(mk_case([], ["q", "r"], body))
    # the same conjunctions where they are not the direct body of dfs { }: a clause of a nested cond, the body of
    # a closure relation, a match arm, under fresh; the second goal needs several steps per answer
    pairs = ["def", "pairs", ["params", "x", "y", "l", "m"], "closure", ["conj", ["lib", "member", "x", "l"], ["lib", "member", "y", "m"]]]
    for _ in range(n // 5):
        a = ["list"] + rnd.sample([1, 2, 3, 4, 5], rnd.randint(2, 3))
        b = ["list"] + rnd.sample([6, 7, 8, 9], rnd.randint(2, 3))
        g1 = rnd.choice([["lib", "member", "q", a], ["cond"] + [["eq", "q", v] for v in a[1:]]])
        g2 = rnd.choice([["lib", "member", "r", b], ["cond"] + [["fresh", ["z"], ["eq", "z", v], ["eq", "r", "z"]] for v in b[1:]],
                         ["fresh", ["z"], ["lib", "member", "z", b], ["eq", "r", "z"]]])
        shape = rnd.choice([
            ["dfs", ["cond", ["conj", g1, g2]]],
            ["dfs", ["cond", ["conj", g1, g2], ["conj", ["eq", "q", 0], g2]]],
            ["dfs", ["call", "pairs", "q", "r", a, b]],
            ["dfs", ["fresh", ["w"], ["eq", "w", 1], ["cond", ["conj", g1, g2, ["eq", "w", 1]]]]],
            ["dfs", ["match", a, ["arm", ["pats", ["ilist", "h", "_"]], g1, g2]]],
        ])
        cases.append(mk_case([pairs], ["q", "r"], [shape]))
    # clauses that can never succeed (a literal false) among several live ones: the order of the others must not change
    for _ in range(n // 5):
        m = rnd.randint(3, 6)
        vals = rnd.sample(range(1, 10), m)
        clauses = []
        for v in vals:
            live = rnd.choice([["eq", "q", v], ["conj", ["eq", "q", v], ["eq", "r", v + 10]], ["lib", "member", "q", ["list", v, v + 20]]])
            dead = rnd.choice(["false", ["conj", "false", ["eq", "q", v]], ["conj", ["eq", "q", v], "false"]])
            clauses.append(dead if rnd.random() < 0.35 else live)
        shape = rnd.choice([["dfs", ["cond"] + clauses],
                            ["dfs", ["eq", "r", 0], ["cond"] + clauses],
                            ["dfs", ["lib", "member", "r", ["list", 1, 2]], ["cond"] + clauses],
                            ["dfs", ["match", ["list", 1], ["arm", ["pats", "_"], ["cond"] + clauses]]]])
        cases.append(mk_case([], ["q", "r"], [shape]))
    # the depth-first binary-disjunction API (DFSDisj::new / from_vec / from_array / from_conjunctions; the macros never reach it):
    # clause order, with clauses decided when the goal is built (true, an empty clause, false) in every position
    for _ in range(n // 5):
        variant = rnd.choice(["new", "vec", "array", "conjs"])
        nb = 2 if variant == "new" else rnd.randint(2, 4)
        branches = []
        for b in range(nb):
            kind = rnd.random()
            if kind < 0.25:
                branches.append(["conj", "true"] if rnd.random() < 0.5 else ["conj"])
            elif kind < 0.35:
                branches.append(["conj", "false"])
            elif kind < 0.7:
                branches.append(["conj", ["lib", "member", "q", ["list", 10 * b + 1, 10 * b + 2]]])
            else:
                branches.append(["conj", ["eq", "q", 10 * b + 5], ["eq", "r", 0]])
        d = ["disj", variant] + branches
        shape = rnd.choice([["dfs", d], ["dfs", d, ["lib", "member", "r", ["list", 1, 2]]], ["dfs", ["cond", d, ["eq", "q", 99]]]])
        cases.append(mk_case([], ["q", "r"], [shape], mode="seq"))
    # the known finding's witness, so that it is reported on every run while it exists
    cases.append(mk_case([], ["q"], [["dfs", ["cond", ["eq", "q", ["list", 3]], "true"]]]))
    return pcheck.run_check("C05", tier, seed, cases, "exact", oracle_c05, cone=CONE, replay=replay, known_classifier=known_c05,
        rule="random programs over eq/neq/conj/fresh/cond/member/append/closure wrapped in dfs{}, plus conjunctions of multi-answer goals; "
             "compared position by position with the Python list-monad reference (gen/refsem.py) and step-exactly with the model; "
             "non-trivial = at least one answer",
        assumptions=["reference interpreter gen/refsem.py is trusted as the statement of Prolog order"],
        extra_cov=lambda cs, i, m: {"reference_applied": sum(1 for c in cs if c.get("ref_applied")),
                                    "multi_answer": sum(1 for x in i if len(x.answers) > 1)})


# ----------------------------------------------------------------------------- C06
def oracle_c06(cases, impl, model):
    _, libdefs, _ = P.libdefs_path()
    fails = []
    for k, (c, i) in enumerate(zip(cases, impl)):
        if i.error:
            continue
        ref = reference(c, libdefs)
        if ref is None:
            continue
        c["ref_applied"] = True
        got = seq_of(i)
        if i.end == "done":
            if bag_of(got) != bag_of(ref):
                fails.append({"case_index": k, "what": "interleaving search answers differ from the reference multiset",
                              "reference": show_ref(ref)})
        else:
            refb = bag_of(ref)
            extra = [x for x in bag_of(got) if x not in refb]
            if extra:
                fails.append({"case_index": k, "what": "an answer was produced that is not an answer of the program", "extra": extra[:3]})
    for k, c in enumerate(cases):
        tw = c.get("dfs_twin_of")
        if tw is not None and impl[k].end == "done" and impl[tw].end == "done" and not impl[k].error and not impl[tw].error:
            if bag_of(seq_of(impl[k])) != bag_of(seq_of(impl[tw])):
                fails.append({"case_index": k, "what": "depth-first and interleaving search of the same program give different multisets",
                              "twin": cases[tw]["line"]})
    return fails


def run_c06(tier, seed, replay=None):
    rnd = random.Random(seed)
    n = 400 if tier == "quick" else 3000
    cases = gen_tree_cases(rnd, n, TREE)
    twins = []
    for k, c in enumerate(cases):
        if rnd.random() < 0.5:
            t = mk_case([], c["qvars"], [["dfs"] + c["body"]])
            t["dfs_twin_of"] = k
            twins.append(t)
    cases += twins
    for _ in range(n // 8):
        g = P.Gen(rnd, allow=TREE + ["always"], depth=2)
        cases.append(mk_case([], ["q"], [g.goal(["q"]), ["lib", "always"], g.goal(["q"])], maxans=6, budget=1500))
    # the interleaving labeling combinator map_sum called through the API, nested (every level returns an already mature stream
    # of several answers): all combinations are answers, next to ordinary goals
    for _ in range(n // 10):
        lv = []
        for v in rnd.sample(["q", "r", "t"], rnd.randint(1, 3)):
            lv.append([v] + rnd.sample(range(1, 9), rnd.randint(1, 3)))
        body = [["mapsum"] + lv]
        if rnd.random() < 0.4:
            body.append(rnd.choice([["neq", "q", lv[0][1]], ["lib", "member", "t", ["list", 1, 2]], ["eq", "r", "q"]]))
        if rnd.random() < 0.3:
            body.insert(0, rnd.choice([["neq", "q", 3], ["eq", "t", 2]]))
        cases.append(mk_case([], ["q", "r", "t"], body, maxans=60, budget=6000, mode="bag"))
    return pcheck.run_check("C06", tier, seed, cases, "exact", oracle_c06, cone=CONE, replay=replay,
        rule="random tree programs (eq/neq/conj/fresh/conde/member/append/closure), each also wrapped in dfs{} (twin), plus programs with "
             "an infinite producer (always) compared on a prefix; multiset against the Python reference and against the dfs twin; "
             "step-exact against the model; non-trivial = at least one answer",
        extra_cov=lambda cs, i, m: {"reference_applied": sum(1 for c in cs if c.get("ref_applied")),
                                    "dfs_twins": sum(1 for c in cs if "dfs_twin_of" in c)})


# ----------------------------------------------------------------------------- C07
def oracle_c07(cases, impl, model):
    fails = []
    for k, (c, i) in enumerate(zip(cases, impl)):
        exp = c.get("expect_values")
        if exp is None:
            continue
        if i.error:
            if exp and not i.error.startswith("notrun") and model[k].answers:
                fails.append({"case_index": k, "what": "branch answers %s are never produced: the search does not return (%s)" % (exp, i.error)})
            continue
        got = {a[0][0] for a in i.answers}
        for v, least in (c.get("expect_counts") or {}).items():
            have = sum(1 for a in i.answers if a[0][0] == str(v))
            if have < least:
                fails.append({"case_index": k, "what": "loop body answer %s delivered %d times within %d answers / %d steps, at least %d expected: "
                              "later rounds of the loop are starved by a body that does not finish" % (v, have, c["maxans"], c["budget"], least)})
        missing = [v for v in exp if str(v) not in got]
        if missing:
            fails.append({"case_index": k, "what": "branch answers %s not produced within %d answers / %d steps (starved)" %
                          (missing, c["maxans"], c["budget"]), "got": sorted(got)})
    return fails


def run_c07(tier, seed, replay=None):
    rnd = random.Random(seed)
    n = 150 if tier == "quick" else 1200
    cases = []
    spin = ["def", "spin", ["params", "x"], "closure", ["fresh", ["y"], ["call", "spin", "y"]]]
    count = ["def", "upfrom", ["params", "x", "l"], "closure",
             ["cond", ["eq", "x", "l"], ["fresh", ["m"], ["call", "upfrom", "x", ["cons", 0, "l"]]]]]
    for _ in range(n):
        nb = rnd.randint(2, 4)
        vals, branches = [], []
        for b in range(nb):
            kind = rnd.choice(["never", "always_val", "val", "member", "spin", "loop_val", "nested", "upfrom", "bare_always", "bare_always"])
            v = 10 + b
            if kind == "never":
                branches.append(["lib", "never"])
            elif kind == "spin":
                branches.append(["call", "spin", "q"])
            elif kind == "bare_always":
                # an infinite producer that succeeds at once as a direct disjunct (always(), loop { true }, conde { true, .. })
                branches.append(rnd.choice([["lib", "always"], ["loop", "true"], ["cond", "true", ["lib", "always"]],
                                            ["cond", "true", ["loop", ["eq", "q", v]]]]))
            elif kind == "always_val":
                branches.append(["conj", ["lib", "always"], ["eq", "q", v]]); vals.append(v)
            elif kind == "loop_val":
                branches.append(["loop", ["eq", "q", v]]); vals.append(v)
            elif kind == "val":
                branches.append(["eq", "q", v]); vals.append(v)
            elif kind == "member":
                branches.append(["lib", "member", "q", ["list", v, v + 100]]); vals += [v, v + 100]
            elif kind == "upfrom":
                branches.append(["conj", ["fresh", ["z"], ["call", "upfrom", "z", "nil"]], ["eq", "q", v]]); vals.append(v)
            else:
                branches.append(["cond", ["lib", "never"], ["conj", ["lib", "always"], ["eq", "q", v]], ["eq", "q", v + 200]])
                vals += [v, v + 200]
        flood = any(b in (["lib", "always"], ["loop", "true"]) or (b[0] == "cond" and b[1] == "true") for b in branches)
        if flood:
            # an answer-flooding branch takes its share of every prefix: fewer siblings, a longer prefix
            branches, vals = branches[:3], [v for v in vals if v % 100 < 13]
        body = [["cond"] + branches]
        if rnd.random() < 0.3 and not flood:
            body = [["fresh", ["w"], ["cond", ["conj", ["lib", "always"], ["eq", "w", 1]], ["eq", "w", 2]]]] + body
        maxans, budget = (160, 8000) if flood else (40, 6000)
        c = mk_case([spin, count], ["q"], body, maxans=maxans, budget=budget, expect_values=vals)
        c["maxans"], c["budget"] = maxans, budget
        cases.append(c)
    # a closure-style relation whose body is SEVERAL goals with the recursive call first: the conjunction suspends it, so as a
    # branch of a disjunction it leaves the other branches their turns
    spin2 = ["def", "spin2", ["params", "x"], "closure", ["conj", ["call", "spin2", "x"], ["eq", "x", 0]]]
    spin3 = ["def", "spin3", ["params", "x"], "closure", ["conj", ["call", "spin3", "x"], ["call", "spin3", "x"], ["eq", "x", 0]]]
    # ... and the same written as an inline closure { rec(x), x == 0 } block (the relation itself is direct-style)
    spin4 = ["def", "spin4", ["params", "x"], "direct", ["closure", ["call", "spin4", "x"], ["eq", "x", 0]]]
    for _ in range(max(8, n // 10)):
        v = rnd.randint(1, 9)
        silent = rnd.choice([["call", "spin2", "q"], ["call", "spin3", "q"], ["closure", ["call", "spin2", "q"], ["eq", "q", 0]],
                             ["call", "spin4", "q"], ["call", "spin4", "q"], ["loop", ["call", "spin", "q"]],
                             ["loop", ["conj", ["call", "spin", "q"], ["eq", "q", 3]]]])
        branches = [silent, ["eq", "q", v]]
        if rnd.random() < 0.5:
            branches.reverse()
        if rnd.random() < 0.4:
            branches.append(["cond", ["eq", "q", v + 10], silent])
        exp = [v] + ([v + 10] if len(branches) == 3 else [])
        c = mk_case([spin, count, spin2, spin3, spin4], ["q"], [["cond"] + branches], maxans=len(exp), budget=3000, expect_values=exp)
        c["maxans"], c["budget"] = len(exp), 3000
        cases.append(c)
    # loop { g } is the fair disjunction "g or loop { g }": with a body that yields an answer and then runs forever, the
    # later rounds must still be started and deliver the answer again and again
    for _ in range(n // 3):
        v = rnd.randint(1, 9)
        silent = rnd.choice([["lib", "never"], ["call", "spin", "q"], ["fresh", ["z"], ["call", "spin", "z"]]])
        inner = ["cond", ["eq", "q", v], silent] if rnd.random() < 0.5 else ["cond", silent, ["eq", "q", v]]
        shape = rnd.choice([[["loop", inner]],
                            [["cond", ["loop", inner], ["loop", ["eq", "q", v + 10]]]],
                            [["cond", ["eq", "q", v + 20], ["loop", inner]]],
                            [["fresh", ["w"], ["loop", ["cond", ["eq", "w", 1], silent]], ["eq", "q", v]]]])
        c = mk_case([spin, count], ["q"], shape, maxans=12, budget=6000, expect_values=[v], expect_counts={v: 3})
        c["maxans"], c["budget"] = 12, 6000
        cases.append(c)
    return pcheck.run_check("C07", tier, seed, cases, "exact", oracle_c07, cone=CONE, replay=replay,
        rule="disjunctions of 2-4 branches mixing silent divergers (never, a relation recursing through fresh only), infinite producers "
             "(always, loop, a counting relation), finite goals and nested disjunctions, optionally behind another infinite disjunction; "
             "every value a branch produces must appear among the first 40 answers within 6000 engine steps; loops whose body answers and "
             "then runs forever must deliver the answer at least 3 times among 12; step-exact against the model; "
             "non-trivial = at least one answer",
        extra_cov=lambda cs, i, m: {"cases_with_diverging_branch": sum(1 for c in cs if "never" in c["line"] or "spin" in c["line"])})


# ----------------------------------------------------------------------------- C08
def oracle_c08(cases, impl, model):
    _, libdefs, _ = P.libdefs_path()
    fails = []
    for k, (c, i) in enumerate(zip(cases, impl)):
        if i.error or c.get("ref_mode") == "skip":
            continue
        ref = reference(c, libdefs)
        if ref is None or i.end != "done":
            continue
        c["ref_applied"] = True
        if bag_of(seq_of(i)) != bag_of(ref):
            fails.append({"case_index": k, "what": "committed-choice answers differ from the soft-cut reference", "reference": show_ref(ref)})
    return fails


def run_c08(tier, seed, replay=None):
    rnd = random.Random(seed)
    n = 500 if tier == "quick" else 4000
    cases = []
    allow_in = ["eq", "eq", "neq", "cond", "fresh", "conj", "member", "append", "true", "false"]
    for _ in range(n):
        g = P.Gen(rnd, allow=allow_in, depth=2)
        op = rnd.choice(["conda", "condu", "onceo"])
        q = ["q", "r"][:rnd.randint(1, 2)]
        clauses = []
        for _ in range(rnd.randint(1, 3)):
            m = rnd.randint(1, 3)
            head = rnd.choice([g.goal(list(q)),
                               ["lib", "member", rnd.choice(q), ["list"] + rnd.sample([1, 2, 3, 4], rnd.randint(1, 3))],
                               ["cond", "false", ["lib", "member", rnd.choice(q), ["list", 5, 6]]]])
            gs = [head] + [g.goal(list(q)) for _ in range(m - 1)]
            clauses.append(gs[0] if m == 1 and rnd.random() < 0.5 else ["conj"] + gs)
        pre = [g.goal(list(q))] if rnd.random() < 0.4 else []
        post = [g.goal(list(q))] if rnd.random() < 0.4 else []
        cases.append(mk_case([], q, pre + [[op] + clauses] + post))
    # the committed head answers are filtered by later goals: the first head answer is rejected, a later one accepted
    for _ in range(n // 4):
        vals = rnd.sample([1, 2, 3, 4], rnd.randint(2, 4))
        pick = rnd.choice(vals)
        op = rnd.choice(["conda", "condu", "onceo"])
        head = rnd.choice([["lib", "member", "q", ["list"] + vals], ["cond"] + [["eq", "q", v] for v in vals],
                           ["loop", ["cond"] + [["eq", "q", v] for v in vals]]])
        rest = rnd.choice([["eq", "q", pick], ["neq", "q", vals[0]], ["lib", "member", "q", ["list", pick, 9]]])
        shape = rnd.choice([[op, head, rest] if op == "onceo" else [op, ["conj", head, rest]], [op, ["conj", head, rest]],
                            [op, ["conj", head, rest], ["eq", "q", 0]]])
        if head[0] == "loop" and op == "conda":
            continue
        cases.append(mk_case([], ["q"], [shape], maxans=10, budget=1500, ref_mode=("skip" if head[0] == "loop" else "bag")))
    # the committed head is itself a committed-choice goal that delivers an already mature stream of several answers
    for _ in range(n // 5):
        vals = rnd.sample([1, 2, 3, 4, 5], rnd.randint(2, 4))
        multi = rnd.choice([["lib", "member", "q", ["list"] + vals], ["cond"] + [["eq", "q", v] for v in vals]])
        inner = rnd.choice([["conda", multi, ["eq", "q", 0]], ["conda", ["conj", "false", ["eq", "q", 0]], multi],
                            ["conda", ["conj", multi]], ["conda", ["conj", multi, "true"]]])
        outer = rnd.choice(["condu", "onceo", "conda"])
        rest = rnd.choice([[], [["eq", "r", "q"]], [["neq", "q", vals[0]]]])
        shape = rnd.choice([[outer, inner] + ([["eq", "q", 9]] if outer != "onceo" and rnd.random() < 0.3 else []),
                            [outer, ["conj", inner] + rest]])
        cases.append(mk_case([], ["q", "r"], [shape], maxans=12, budget=2500))
    # a clause whose head succeeds and whose rest can never succeed (a literal false, possibly nested): the operator
    # commits to it all the same - nothing from the later clauses may leak out
    for _ in range(n // 5):
        vals = rnd.sample([1, 2, 3, 4], rnd.randint(1, 3))
        op = rnd.choice(["conda", "condu"])
        head = rnd.choice([["eq", "q", vals[0]], ["lib", "member", "q", ["list"] + vals], "true", ["cond"] + [["eq", "q", v] for v in vals],
                           ["neq", "q", 7]])
        dead = rnd.choice([["false"], [["eq", "r", 1], "false"], ["false", ["eq", "r", 1]], [["conj", "false"]], [["cond", "false"]],
                           [["fresh", ["z"], "false"]]])
        first = rnd.choice([[], [["conj", ["eq", "q", 8], ["eq", "q", 9]]], [["conj", "false", ["eq", "q", 5]]]])
        later = rnd.choice([[["eq", "q", 6]], [["conj", ["eq", "q", 6], ["eq", "r", 6]], "true"], ["true"]])
        shape = [op] + first + [["conj", head] + dead] + later
        pre = [["eq", "r", 0]] if rnd.random() < 0.3 and dead[0] == "false" else []
        cases.append(mk_case([], ["q", "r"], pre + [shape], maxans=12, budget=2500))
    # a committed clause with SEVERAL rest goals whose order matters (a committed-choice goal in the rest, multi-answer goals):
    # the answers are those of head, rest1, rest2, .. in that order
    for _ in range(n // 5):
        vals = rnd.sample([1, 2, 3, 4], rnd.randint(2, 3))
        op = rnd.choice(["conda", "condu"])
        head = rnd.choice([["eq", "q", 1], ["lib", "member", "q", ["list", 1, 2]], "true"])
        rest = rnd.choice([[["onceo", ["lib", "member", "r", ["list"] + vals]], ["eq", "r", vals[-1]]],
                           [["onceo", ["lib", "member", "r", ["list"] + vals]], ["eq", "r", vals[0]]],
                           [["lib", "member", "r", ["list"] + vals], ["lib", "member", "t", ["list", 7, 8]]],
                           [["condu", ["lib", "member", "r", ["list"] + vals]], ["neq", "r", vals[0]], ["eq", "t", 0]],
                           [["eq", "t", 0], ["onceo", ["cond", ["eq", "r", vals[0]], ["eq", "r", vals[1]]]], ["eq", "r", vals[1]]]])
        later = rnd.choice([[], [["eq", "q", 9]]])
        cases.append(mk_case([], ["q", "r", "t"], [[op, ["conj", head] + rest] + later], maxans=20, budget=3000))
    for _ in range(n // 10):
        v = rnd.randint(1, 5)
        cases.append(mk_case([], ["q"], [[rnd.choice(["condu", "onceo"]), ["conj", ["lib", "always"], ["eq", "q", v]]]],
                             maxans=5, budget=800, ref_mode="skip"))
    return pcheck.run_check("C08", tier, seed, cases, "exact", oracle_c08, cone=CONE, replay=replay,
        rule="conda/condu/onceo over 1-3 clauses whose heads have 0, 1 or several (lazily produced) answers, with rest goals and "
             "surrounding goals; answers against the soft-cut reference (gen/refsem.py) as multisets, step-exact and order-exact "
             "against the model; infinite heads for condu/onceo against the model; non-trivial = at least one answer",
        assumptions=["for condu/onceo the reference takes the head's first answer in Prolog order; where the interleaved first answer "
                     "differs the reference is not applicable and the exact comparison with the model decides"],
        extra_cov=lambda cs, i, m: {"reference_applied": sum(1 for c in cs if c.get("ref_applied"))})


# ----------------------------------------------------------------------------- C09
def run_c09(tier, seed, replay=None):
    rnd = random.Random(seed)
    n = 300 if tier == "quick" else 2500
    cases = gen_tree_cases(rnd, n, TREE + ["always", "loop", "conda", "onceo"], maxans=7, budget=2500)
    ones = ["def", "ones", ["params", "l"], "closure", ["cond", ["eq", "l", "nil"], ["fresh", ["m"], ["eq", "l", ["cons", 1, "m"]], ["call", "ones", "m"]]]]
    for _ in range(n // 6):
        k = rnd.choice([["dfs", ["fresh", ["l"], ["call", "ones", "l"], ["eq", "q", "l"]]],
                        ["dfs", ["call", "ones", "q"], ["lib", "member", "r", ["list", 1, 2]]],
                        ["dfs", ["cond", ["call", "ones", "q"], ["eq", "q", 5]], ["neq", "q", ["list", 1]]],
                        ["dfs", ["fresh", ["l"], ["lib", "append", "l", ["list", rnd.randint(1, 3)], "q"]], ["eq", "r", 0]]])
        cases.append(mk_case([ones], ["q", "r"], [k], maxans=rnd.randint(2, 6), budget=1500, must_answer=True))
    # several stored disequalities whose re-check order is the store's iteration order: the answers must not depend on it
    hs = []
    for _ in range(n // 10):
        a, b, c3 = rnd.sample([1, 2, 3, 4], 3)
        body = rnd.choice([
            [["neq", ["list", "q", "r"], ["list", a, b]], ["eq", "q", "r"], ["cond", ["eq", "r", a], ["eq", "r", b], ["eq", "r", c3]]],
            [["neq", ["list", "q", "r"], ["list", a, b]], ["neq", ["list", "r", "t"], ["list", b, c3]], ["eq", "q", "t"],
             ["cond", ["eq", "r", b], ["eq", "r", a]], ["cond", ["eq", "q", a], ["eq", "q", c3]]],
            [["neq", ["list", "q", "r", "t"], ["list", a, b, c3]], ["eq", "q", "t"], ["eq", "r", "t"], ["lib", "member", "t", ["list", a, b, c3]]],
            [["neq", "q", a], ["neq", "q", b], ["neq", ["list", "q", "r"], ["list", c3, c3]], ["eq", "r", "q"], ["lib", "member", "q", ["list", a, b, c3, 5]]],
        ])
        hs.append(mk_case([], ["q", "r", "t"], body, maxans=10, budget=3000))
    # one later disequality implies k >= 4 stored ones at once: all of them leave the store, whichever
    # order the store is scanned in (the reported constraint set must not depend on that order)
    for _ in range(max(6, n // 25)):
        k = rnd.randint(4, 8)
        a = rnd.randint(1, 3)
        vs = ["r", "t", "u", "v", "w", "x", "y", "z"][:k]
        body = [["neq", ["list", "q", v], ["list", a, i + 2]] for i, v in enumerate(vs)]
        rnd.shuffle(body)
        body.append(["neq", "q", a])
        if rnd.random() < 0.4:
            body.append(rnd.choice([["eq", vs[0], vs[1]], ["neq", vs[0], 9], ["cond", ["eq", vs[0], 2], ["eq", vs[1], 2]]]))
        hs.append(mk_case([], ["q"] + vs, body, maxans=4, budget=3000))
    # finite-domain programs whose propagation visits hash-ordered collections: one unification binding several variables, some
    # with a domain and some without; the answer multiset must be the same in every run (sequence: the order is the labeling order)
    for _ in range(max(6, n // 25)):
        lo = rnd.randint(0, 2)
        k = lo + rnd.randint(0, 3)
        uni = rnd.choice([["eq", ["list", "a", "q"], ["list", "b", k]], ["eq", ["list", "q", "a"], ["list", "r", "b"]],
                          ["eq", ["list", "a", "q", "b"], ["list", 1, "r", "a"]], ["eq", ["list", "a", "b", "r"], ["list", "b", 7, "q"]]])
        body = [["fresh", ["a", "b"], ["dom", "q", ["i", lo, lo + 2]], ["dom", "r", ["i", lo, lo + 3]], uni]]
        hs.append(mk_case([], ["q", "r"], body, maxans=30, budget=4000, mode="bag", fd=True))
    # laziness to the step: the first answer is there after finitely many steps; whatever the search would do NEXT - here
    # starting a committed-choice goal whose guard never returns, d pauses away - must not be run by take(1)
    spinr = ["def", "spin", ["params", "x"], "closure", ["fresh", ["y"], ["call", "spin", "y"]]]
    for op in ["onceo", "conda", "condu"]:
        for d in range(0, 26 if tier == "quick" else 60):
            silent = ["lib", "never"] if d % 2 == 0 or tier == "quick" else ["call", "spin", "q"]
            g = [op, silent] if op == "onceo" else [op, ["conj", silent, ["eq", "q", 2]]]
            for j_ in range(d):
                g = ["conj", g, "true"]          # a conjunction whose start only suspends g: one more step
            first = ["eq", "q", 1] if tier == "quick" or d % 3 else ["eq", "q", ["list", 1, 2]]
            cases.append(mk_case([spinr], ["q"], [["cond", first, g]], maxans=1, budget=1500, must_answer=True))
    # hidden finite-domain variables that are labeled after the query term, in hash order: whichever comes first, the answers are the same
    for _ in range(max(6, n // 25)):
        k = rnd.randint(3, 4)
        hv = ["a", "b", "c", "d"][:k]
        qd = rnd.sample(range(5, 10), 2)
        body = [["fresh", hv, ["dom", "q", ["v"] + qd], ["dom", ["list"] + hv[:-1], ["i", 1, k - 1]], ["dom", hv[-1], ["i", 1, k]],
                 ["rel", "distinctfd", ["list"] + hv]] + ([["rel", "ltefd", hv[0], hv[1]]] if rnd.random() < 0.3 else [])]
        hs.append(mk_case([], ["q"], body, maxans=30, budget=20000, mode="bag", fd=True, must_answer=True))
    # CLP(Z) chains in which one constraint solves an operand another one waits on, woken by a unification: the store is
    # re-run in hash order, the answers must not depend on it
    for _ in range(max(6, n // 25)):
        a, b = rnd.randint(1, 3), rnd.randint(1, 4)
        body = [["fresh", ["u", "p"], ["rel", "plusz", "u", 1, "q"], ["rel", "plusz", a, "u", "p"], ["rel", "timesz", "u", 2, "r"], ["eq", "p", a + b]]]
        hs.append(mk_case([], ["q", "r"], body, maxans=5, budget=3000, mode="bag", must_answer=True))
    cases = hs + cases            # among the first cases: they are also re-run in fresh processes
    for c in hs * 3:
        cases.append(dict(c))
    for c in list(cases[: n // 2]):
        cases.append(dict(c))

    def oracle(cs, impl, model):
        fails = []
        first = {}
        for k, (c, i) in enumerate(zip(cs, impl)):
            if i.error:
                if c.get("must_answer") and not i.error.startswith("notrun") and model[k].answers:
                    fails.append({"case_index": k, "what": "taking the first %d answers of a productive query did not return (%s)" % (len(model[k].answers), i.error)})
                continue
            if c.get("must_answer") and len(i.answers) < len(model[k].answers):
                fails.append({"case_index": k, "what": "taking the first answers of a productive query delivered %d of the %d answers available within the step budget" % (len(i.answers), len(model[k].answers))})
            if c.get("must_answer") and i.end == "diverged" and model[k].end == "limit" and len(i.answers) == len(model[k].answers):
                fails.append({"case_index": k, "what": "the %d answers asked for were delivered, but on the way the iterator ran a further search step that "
                              "does not return (a committed-choice guard that diverges): take(n) on the plain library does not come back" % len(i.answers)})
            if "notfused" in (i.end or ""):
                fails.append({"case_index": k, "what": "the iterator returned an answer after returning None"})
            key = c["line"]
            if key in first:
                j = first[key]
                if (bag_of(seq_of(impl[j])) != bag_of(seq_of(i)) if c.get("fd") else seq_of(impl[j]) != seq_of(i)) or impl[j].end != i.end:
                    fails.append({"case_index": k, "what": "two runs of the same query in one process differ", "first_run": impl[j].raw[:2000]})
            else:
                first[key] = k
        m = 40 if tier == "quick" else 300
        sl = cs[:m]
        again = C.run_impl("C09x", [c["line"] for c in sl])
        again2 = C.run_impl("C09y", [c["line"] for c in sl[::-1]])[::-1]
        for k, (c, a, b) in enumerate(zip(sl, again, again2)):
            ra, rb = P.Result(a), P.Result(b)
            if ra.error or rb.error or impl[k].error:
                continue
            same = (lambda x, y: bag_of(seq_of(x)) == bag_of(seq_of(y))) if c.get("fd") else (lambda x, y: seq_of(x) == seq_of(y))
            if not same(ra, impl[k]) or not same(rb, impl[k]) or ra.end != impl[k].end:
                fails.append({"case_index": k, "what": "runs in fresh processes differ", "other_run": a[:2000]})
        return fails
    return pcheck.run_check("C09", tier, seed, cases, "exact", oracle, cone=CONE, replay=replay,
        rule="random programs including infinite producers, taking at most 7 answers under a step budget; every query is also iterated "
             "twice past its end (fused), half of them run twice in-process and a slice again in two fresh processes; step-exact "
             "against the model (laziness: the n-th answer costs exactly the model's steps); non-trivial = at least one answer",
        assumptions=["hash-set iteration order is not modelled: determinism across orders is observed, not proved"])


# ----------------------------------------------------------------------------- C10
def oracle_c10(cases, impl, model):
    fails = []
    for k, c in enumerate(cases):
        parts = c.get("parts")
        if not parts:
            continue
        if any(impl[x].error or impl[x].end != "done" for x in (k,) + tuple(parts)):
            continue
        comb = bag_of(seq_of(impl[k]))
        sep = sorted(sum((bag_of(seq_of(impl[x])) for x in parts), []))
        if comb != sep:
            fails.append({"case_index": k, "what": "answers of the disjunction are not the union of the answers of its branches run alone",
                          "branches_alone": [impl[x].raw[:800] for x in parts]})
    return fails


def run_c10(tier, seed, replay=None):
    rnd = random.Random(seed)
    n = 250 if tier == "quick" else 2000
    cases = []
    allow = ["eq", "eq", "neq", "neq", "cond", "fresh", "conj", "member", "true", "false"]
    for _ in range(n):
        g = P.Gen(rnd, allow=allow, depth=2)
        q = ["q", "r"]
        prefix = [g.goal(list(q), 1) for _ in range(rnd.randint(0, 2))]
        A = [g.goal(list(q)) for _ in range(rnd.randint(1, 2))]
        B = [g.goal(list(q)) for _ in range(rnd.randint(1, 2))]
        suffix = [g.goal(list(q), 1) for _ in range(rnd.randint(0, 1))]
        k = len(cases)
        cases.append(mk_case([], q, prefix + [["cond", ["conj"] + A, ["conj"] + B]] + suffix, parts=(k + 1, k + 2)))
        cases.append(mk_case([], q, prefix + [["conj"] + A] + suffix))
        cases.append(mk_case([], q, prefix + [["conj"] + B] + suffix))
    for _ in range(n // 3):
        lo, hi = rnd.randint(-2, 1), rnd.randint(2, 4)
        prefix = [["dom", ["list", "q", "r"], ["i", lo, hi]], ["rel", "distinctfd", ["list", "q", "r"]],
                  rnd.choice([["rel", "ltefd", "q", "r"], ["rel", "plusfd", "q", 1, "r"], ["neq", "q", "r"]])]
        A = [rnd.choice([["eq", "q", rnd.randint(lo, hi)], ["rel", "ltefd", "q", rnd.randint(lo, hi)], ["dom", "q", ["v", lo, hi]]])]
        B = [rnd.choice([["eq", "r", rnd.randint(lo, hi)], ["rel", "diseqfd", "r", rnd.randint(lo, hi)], ["dom", "r", ["i", lo, lo + 1]]])]
        k = len(cases)
        cases.append(mk_case([], ["q", "r"], prefix + [["cond", ["conj"] + A, ["conj"] + B]], parts=(k + 1, k + 2), mode="bag"))
        cases.append(mk_case([], ["q", "r"], prefix + A, mode="bag"))
        cases.append(mk_case([], ["q", "r"], prefix + B, mode="bag"))
    # a constraint object that is rewritten when it runs (distinctfd records the values seen so far): all but one
    # of its variables are decided in the shared prefix, both branches decide the last one, possibly to the same value
    for _ in range(n // 3):
        k3 = rnd.random() < 0.5
        vs = ["q", "r", "t"] if k3 else ["q", "r"]
        dom = ["dom", ["list"] + vs, ["i", 0, 4]]
        decided = [["eq", v, i + 1] for i, v in enumerate(vs[:-1])]
        last = vs[-1]
        free = [x for x in range(0, 5) if x not in range(1, len(vs))]
        va = rnd.choice(free)
        vb = rnd.choice([va, va, rnd.choice(free)])
        A = [rnd.choice([["eq", last, va], ["conj", ["rel", "ltefd", va, last], ["rel", "ltefd", last, va]]])]
        B = [rnd.choice([["eq", last, vb], ["conj", ["rel", "ltefd", vb, last], ["rel", "ltefd", last, vb]]])]
        prefix = rnd.choice([[dom, ["rel", "distinctfd", ["list"] + vs]] + decided, [dom] + decided + [["rel", "distinctfd", ["list"] + vs]],
                             [["rel", "distinctfd", ["list"] + vs], dom] + decided])
        k = len(cases)
        cases.append(mk_case([], ["q", "r", "t"][:len(vs)], prefix + [["cond", ["conj"] + A, ["conj"] + B]], parts=(k + 1, k + 2), mode="bag"))
        cases.append(mk_case([], ["q", "r", "t"][:len(vs)], prefix + A, mode="bag"))
        cases.append(mk_case([], ["q", "r", "t"][:len(vs)], prefix + B, mode="bag"))
    # depth-first: a disjunction whose branches are themselves disjunctions of goals that answer at once (bare == clauses), so
    # mature streams of several answers meet in mplus_dfs: the union, in both orders
    for _ in range(n // 4):
        va = rnd.sample(range(1, 9), rnd.randint(2, 4))
        vb = rnd.sample(range(10, 19), rnd.randint(1, 3))
        A = [["cond"] + [["eq", "q", v] for v in va]]
        B = [["cond"] + [["eq", "q", v] for v in vb]] if rnd.random() < 0.7 else [["eq", "q", vb[0]]]
        first, second = (A, B) if rnd.random() < 0.6 else (B, A)
        k = len(cases)
        if rnd.random() < 0.6:
            # built through Conde::from_vec from the bare goals: their streams are mature at once
            first = [["condv"] + first[0][1:]] if first[0][0] == "cond" else first
            second = [["condv"] + second[0][1:]] if second[0][0] == "cond" else second
            outer = ["condv", first[0], second[0]]
        else:
            outer = ["cond", first[0], second[0]] if rnd.random() < 0.7 else ["cond", ["conj"] + first, ["conj"] + second]
        cases.append(mk_case([], ["q"], [["dfs", outer]], parts=(k + 1, k + 2), mode="bag"))
        cases.append(mk_case([], ["q"], [["dfs"] + first], mode="bag"))
        cases.append(mk_case([], ["q"], [["dfs"] + second], mode="bag"))
    # CLP(Z) in the branches: a constraint that solves one of its operands at once (two operands bound in the shared prefix)
    # writes a binding - it must stay in its branch, whichever branch is listed first
    for _ in range(n // 3):
        a, b = rnd.randint(-3, 3), rnd.randint(1, 3)
        rel = rnd.choice(["plusz", "timesz"])
        w = a + b if rel == "plusz" else a * b
        solve = rnd.choice([["rel", rel, "x", "y", "w"], ["rel", rel, "x", "w", w + (b if rel == "plusz" else 0)] if rel == "plusz" else ["rel", rel, "x", "y", "w"],
                            ["rel", rel, "w", "y", (a + b if rel == "plusz" else a * b)] if False else ["rel", rel, "x", "y", "w"]])
        prefix = [["eq", "x", a], ["eq", "y", b]]
        A = [solve, ["eq", "q", ["list", 10, "w"]]]
        B = rnd.choice([[["eq", "q", ["list", 20, "w"]]], [["eq", "w", w + 5], ["eq", "q", 20]], [["neq", "w", w], ["eq", "q", ["list", 30, "w"]]]])
        first, second = (A, B) if rnd.random() < 0.7 else (B, A)
        k = len(cases)
        mk = lambda mid: mk_case([], ["q"], [["fresh", ["x", "y", "w"]] + prefix + mid], mode="bag")
        c0 = mk([["cond", ["conj"] + first, ["conj"] + second]]); c0["parts"] = (k + 1, k + 2)
        cases.append(c0); cases.append(mk(first)); cases.append(mk(second))
    # ONE project goal reached by the states of both branches: the projected variable was bound, before the branch point, to a
    # term that holds a variable the branches bind differently
    for _ in range(n // 4):
        a, b = rnd.sample([1, 2, 3, 4], 2)
        shape = rnd.choice([["list", "y", 0], ["list", 0, ["list", "y"]], ["cons", "y", "y"], "y"])
        prefix = [["eq", "p", shape]]
        A, B = [["eq", "y", a]], [["eq", "y", b]]
        suffix = [rnd.choice([["project", ["p"], ["eq", "q", "p"]], ["project", ["p"], ["eq", "q", ["list", "y", "p"]]],
                              ["project", ["p", "y"], ["eq", "q", ["list", "p", "y"]]]])]
        k = len(cases)
        mk = lambda mid: mk_case([], ["q"], [["fresh", ["p", "y"]] + prefix + mid + suffix], mode="bag")
        c0 = mk([["cond", ["conj"] + A, ["conj"] + B]]); c0["parts"] = (k + 1, k + 2)
        cases.append(c0); cases.append(mk(A)); cases.append(mk(B))
    # the public binary-disjunction API (Disj::new / from_vec / from_array / from_conjunctions), which conde does not go through:
    # branches decided when the goal is built (a literal true, an empty clause, false) next to ordinary ones
    for _ in range(n // 2):
        g = P.Gen(rnd, allow=["eq", "eq", "neq", "member", "true", "false", "conj"], depth=1)
        q = ["q", "r"]
        prefix = [rnd.choice([["neq", "q", 2], ["eq", "r", 1], ["neq", ["list", "q", "r"], ["list", 1, 1]]])] if rnd.random() < 0.6 else []
        variant = rnd.choice(["new", "vec", "array", "conjs"])
        nb = 2 if variant == "new" else rnd.randint(2, 4)
        branches = []
        for _b in range(nb):
            kind = rnd.random()
            if kind < 0.3:
                branches.append(["conj", "true"] if rnd.random() < 0.5 else ["conj"])
            elif kind < 0.4:
                branches.append(["conj", "false"])
            else:
                branches.append(["conj"] + [g.goal(list(q)) for _ in range(rnd.randint(1, 2))])
        k = len(cases)
        cases.append(mk_case([], q, prefix + [["disj", variant] + branches], parts=tuple(range(k + 1, k + 1 + nb)), mode="bag"))
        for b in branches:
            cases.append(mk_case([], q, prefix + [b], mode="bag"))
    return pcheck.run_check("C10", tier, seed, cases, "exact", oracle_c10, cone=CONE, replay=replay,
        rule="triples (prefix; conde{A,B}; suffix), (prefix; A; suffix), (prefix; B; suffix) over eq/neq/fresh/conde/member goals and over "
             "shared FD state (domains, distinctfd, ltefd/plusfd) updated in the branches; the combined answer multiset must be the union of "
             "the separate ones (on the implementation), and each run agrees with the model; non-trivial = at least one answer",
        assumptions=["Rc aliasing is runtime behaviour: isolation is observed through the combined-vs-separate runs, the theorem states the value semantics"])
