"""Checks of the surface-syntax properties C13, C14, C15: programs are printed as Rust source using
the macros, compiled against /repo's current tree, run, and compared with the model (which
elaborates the same AST) and with the reference semantics."""
import copy, random, re
from . import common as C
from . import progs as P
from . import pcheck
from . import surface as S
from .searchc import mk_case, seq_of, bag_of, reference, show_ref

CONE = ["Proofs/ElabProofs.vo", "Proofs/EngineProofs.vo", "Gen/RelDefs.vo", "Proofs/ScopeStream.vo"]
ATOMS = [1, 2, 3, "#t", ["s", 1], ["c", 97], "nil"]


def sterm(rnd, scope, d=2, wild=True, comp=True):
    """the macro grammar admits compound constructors at the top of an argument and inside compound
    arguments, not inside list literals"""
    k = rnd.random()
    if not comp and k >= 0.84:
        k = rnd.random() * 0.84
    if d <= 0 or k < 0.5:
        c = rnd.random()
        if scope and c < 0.5:
            return rnd.choice(scope)
        if wild and c < 0.56:
            return "_"
        return rnd.choice(ATOMS)
    if k < 0.72:
        return ["list"] + [sterm(rnd, scope, d - 1, wild, False) for _ in range(rnd.randint(1, 3))]
    if k < 0.84:
        return ["ilist"] + [sterm(rnd, scope, d - 1, wild, False) for _ in range(rnd.randint(2, 3))]
    # the brace form Named { a: .., b: .. } is pattern syntax only
    tag, ar = rnd.choice([("Pair", 2), ("Wrap", 1), ("Tri", 3)])
    return ["comp", tag] + [sterm(rnd, scope, d - 1, wild) for _ in range(ar)]


class SGen:
    def __init__(self, rnd, defs=(), allow=None):
        self.r = rnd
        self.n = 0
        self.defs = list(defs)
        self.allow = allow or ["eq", "eq", "neq", "conj", "fresh", "cond", "closure", "member", "append", "call", "true", "false", "loopk", "onceo"]

    def name(self, scope, shadow=0.3):
        # reuse an existing name (shadowing) or make a new one
        if scope and self.r.random() < shadow:
            return self.r.choice(scope)
        self.n += 1
        return "v%d" % self.n

    def goal(self, scope, d, dfs=False):
        r = self.r
        kinds = [k for k in self.allow if (d > 0 or k in ("eq", "neq", "true", "false")) and not (dfs and k in ("loopk", "onceo", "conda", "condu"))]
        k = r.choice(kinds)
        if k in ("eq", "neq"):
            # mostly satisfiable: a variable against a term, in either operand order
            a, b = sterm(r, scope), sterm(r, scope)
            if scope and r.random() < 0.7:
                a = r.choice(scope)
            if r.random() < 0.5:
                a, b = b, a
            return [k, a, b]
        if k in ("true", "false"):
            return k
        if k == "conj":
            return ["conj"] + [self.goal(scope, d - 1, dfs) for _ in range(r.randint(1, 3))]
        if k == "fresh":
            names = []
            for _ in range(r.randint(1, 2)):
                nm = self.name(scope)
                if nm not in names:
                    names.append(nm)
            return ["fresh", names] + [self.goal(scope + names, d - 1, dfs) for _ in range(r.randint(1, 3))]
        if k in ("cond", "onceo", "conda", "condu"):
            cl = []
            for _ in range(r.randint(1, 3)):
                m = r.randint(1, 2)
                gs = [self.goal(scope, d - 1, dfs) for _ in range(m)]
                cl.append(gs[0] if m == 1 and r.random() < 0.6 else ["conj"] + gs)
            return [k] + cl
        if k == "loopk":
            # a productive loop cut by the answer limit
            return ["loop", ["eq", r.choice(scope) if scope else 1, r.choice([1, 2])]]
        if k == "closure":
            return ["closure"] + [self.goal(scope, d - 1, dfs) for _ in range(r.randint(1, 2))]
        if k == "member":
            return ["lib", "member", sterm(r, scope, 1), ["list"] + [sterm(r, scope, 1, False, False) for _ in range(r.randint(1, 3))]]
        if k == "append":
            return ["lib", "append", sterm(r, scope, 1), sterm(r, scope, 1), ["list"] + [r.choice([1, 2, 3]) for _ in range(r.randint(0, 3))]]
        if k == "call" and self.defs:
            d_ = r.choice(self.defs)
            ar = len(d_[2]) - 1
            args = [sterm(r, scope, 1, False) for _ in range(ar)]
            if d_[1] in ("mem", "len2"):
                args[-1] = ["list"] + [r.choice([1, 2, 3]) for _ in range(r.randint(0, 3))]
            return ["call", d_[1]] + args
        if k == "match":
            return self.match(scope, d, dfs)
        return ["eq", sterm(r, scope), sterm(r, scope)]

    # ---- patterns
    def pattern(self, names, d, comp=True):
        r = self.r
        k = r.random()
        if not comp and k >= 0.85:
            k = r.random() * 0.85
        if d <= 0 or k < 0.45:
            c = r.random()
            if c < 0.45:
                return r.choice(names)
            if c < 0.6:
                return "_"
            return r.choice(ATOMS)
        if k < 0.7:
            return ["list"] + [self.pattern(names, d - 1, False) for _ in range(r.randint(1, 3))]
        if k < 0.85:
            return ["ilist"] + [self.pattern(names, d - 1, False) for _ in range(r.randint(2, 3))]
        tag, ar = r.choice([("Pair", 2), ("Wrap", 1), ("Tri", 3), ("Named", 2)])
        return ["comp", tag] + [self.pattern(names, d - 1) for _ in range(ar)]

    def pat_vars(self, p, acc):
        if isinstance(p, list):
            for x in (p[2:] if p[0] == "comp" else ([] if p[0] in ("s", "c") else p[1:])):
                self.pat_vars(x, acc)
        elif isinstance(p, str) and p not in ("_", "nil", "#t", "#f") and p not in acc:
            acc.append(p)
        return acc

    def match(self, scope, d, dfs, op=None):
        r = self.r
        op = op or ("match" if dfs else r.choice(["match", "match", "matche", "matcha", "matchu"]))
        t = sterm(r, scope, 2, False, False)   # the matched term is a tree-term
        arms = []
        for _ in range(r.randint(1, 3)):
            names = []
            for _ in range(r.randint(1, 2)):
                nm = self.name(scope, shadow=0.4)
                if nm not in names:
                    names.append(nm)
            pats = [self.pattern(names, 2)]
            used = self.pat_vars(pats[0], [])
            if r.random() < 0.3:
                # an alternative with the same variable set
                for _ in range(5):
                    alt = self.pattern(used or names, 2)
                    if sorted(self.pat_vars(alt, [])) == sorted(used):
                        pats.append(alt)
                        break
            body = [] if r.random() < 0.15 else [self.goal(scope + used, d - 1, dfs) for _ in range(r.randint(1, 2))]
            arms.append(["arm", ["pats"] + pats] + body)
        return [op, t] + arms


def tvars(t, acc):
    if isinstance(t, list):
        if t[0] not in ("s", "c"):
            for x in (t[2:] if t[0] == "comp" else t[1:]):
                tvars(x, acc)
    elif isinstance(t, str) and t not in ("_", "nil", "#t", "#f") and not re.fullmatch(r"-?\d+", t):
        acc.add(t)
    return acc


def fvs(g, bound=frozenset()):
    """free variable names of a goal AST"""
    if not isinstance(g, list):
        return set()
    k = g[0]
    if k in ("eq", "neq", "sq"):
        return (tvars(g[1], set()) | tvars(g[2], set())) - bound
    if k in ("lib", "call", "rel"):
        out = set()
        for x in g[2:]:
            tvars(x, out)
        return out - bound
    if k == "dom":
        return tvars(g[1], set()) - bound
    if k in ("fresh", "project"):
        b2 = bound | set(g[1]) if k == "fresh" else bound
        out = set() if k == "fresh" else set(g[1]) - bound
        for x in g[2:]:
            out |= fvs(x, b2)
        return out
    if k in ("match", "matche", "matcha", "matchu"):
        out = tvars(g[1], set()) - bound
        for arm in g[2:]:
            names = set()
            for p in arm[1][1:]:
                tvars(p, names)
            for x in arm[2:]:
                out |= fvs(x, bound | names)
        return out
    out = set()
    for x in g[1:]:
        out |= fvs(x, bound)
    return out


def fix_closures(body):
    """`closure { .. }` expands to a `move` closure: a variable it captures cannot be used textually
    later, and a closure nested in a closure cannot capture from outside the outer one (both are
    rustc ownership errors, not semantics).  Such closures are printed as plain conjunctions."""
    body = copy.deepcopy(body)

    def text():
        return ", ".join(S.goal(g) for g in body)

    def walk(g, inner, dup=False):
        # dup: inside an arm with alternatives p1 | p2, whose body is expanded once per alternative
        if not isinstance(g, list) or not g:
            return
        k = g[0]
        if k == "closure":
            fv = fvs(g)
            s, T = S.goal(g), text()
            later = T[T.find(s) + len(s):]
            bad = any(re.search(r"\b%s\b" % re.escape(S.ident(v)), later) for v in fv)
            if (inner is not None and not fv <= inner) or (dup and fv):
                bad = True
            if bad:
                g[0] = "conj"
                for x in g[1:]:
                    walk(x, inner, dup)
            else:
                for x in g[1:]:
                    walk(x, set())
            return
        if k == "fresh":
            for x in g[2:]:
                walk(x, None if inner is None else inner | set(g[1]), dup)
            return
        if k in ("match", "matche", "matcha", "matchu"):
            for arm in g[2:]:
                names = set()
                for p in arm[1][1:]:
                    tvars(p, names)
                for x in arm[2:]:
                    walk(x, None if inner is None else inner | names, dup or len(arm[1]) > 2)
            return
        if k in ("eq", "neq", "sq", "lib", "call", "rel", "dom"):
            return
        for x in g[1:]:
            walk(x, inner, dup)
    for g in body:
        walk(g, None)
    return body


MEM = ["def", "mem", ["params", "x", "l"], "closure",
       ["match", "l", ["arm", ["pats", ["ilist", "head", "_"]], ["eq", "head", "x"]], ["arm", ["pats", ["ilist", "_", "rest"]], ["call", "mem", "x", "rest"]]]]
LEN2 = ["def", "len2", ["params", "n", "l"], "closure",
        ["cond", ["conj", ["eq", "l", "nil"], ["eq", "n", "nil"]],
         ["fresh", ["h", "t", "m"], ["eq", "l", ["cons", "h", "t"]], ["eq", "n", ["cons", 1, "m"]], ["call", "len2", "m", "t"]]]]
PAIRUP = ["def", "pairup", ["params", "x", "y", "out"], "direct", ["fresh", ["z"], ["eq", "z", ["list", "x", "y"]], ["eq", "out", ["comp", "Pair", "z", "z"]]]]
DEFS = [MEM, LEN2, PAIRUP]


def oracle_ref(cases, impl, model):
    _, libdefs, _ = P.libdefs_path()
    fails = []
    for k, (c, i) in enumerate(zip(cases, impl)):
        if i.error:
            if i.error.startswith("panic"):
                fails.append({"case_index": k, "what": "panic: %s" % i.error})
            elif i.error.startswith("crash") and "expect_values" in c:
                fails.append({"case_index": k, "what": "%s: the process died (%s) instead of delivering %s" % (c.get("what", ""), i.error, c["expect_values"]),
                              "surface": c.get("surface", "")[:1500]})
            elif i.error.startswith("error:compile"):
                fails.append({"case_index": k, "what": "a program of the documented grammar is rejected by the macros / does not compile: %s"
                              % c.get("compile_error", ""), "surface": c.get("surface", "")[:1500]})
            continue
        if "expect_not" in c and any(a[0][0] == c["expect_not"] for a in i.answers):
            fails.append({"case_index": k, "what": "%s: an answer has q = %s, which a later body entry excludes" % (c.get("what", ""), c["expect_not"]),
                          "surface": c.get("surface", "")[:1500]})
        if "expect_values" in c and sorted(a[0][0] for a in i.answers) != sorted(c["expect_values"]):
            fails.append({"case_index": k, "what": "%s: the answers %s of the finite branches must be delivered, got %s (end %s)" %
                          (c.get("what", ""), c["expect_values"], [a[0][0] for a in i.answers], i.end), "surface": c.get("surface", "")[:1500]})
        if c.get("no_ref"):
            continue
        ref = reference(c, libdefs)
        if ref is None or i.end != "done":
            continue
        c["ref_applied"] = True
        if bag_of(seq_of(i)) != bag_of(ref):
            fails.append({"case_index": k, "what": c.get("what", "the compiled program does not have the answers of its documented meaning"),
                          "surface": c.get("surface", "")[:1500], "reference": show_ref(ref)})
    return fails


def run_compiled(pid, tier, seed, cases, oracle, rule, replay=None, extra=None):
    """like pcheck.run_check, but the implementation side is the compiled surface batch"""
    import json, time
    if pcheck.COLLECT is not None:
        pcheck.COLLECT.extend((pid, c) for c in cases)
        return 0
    res = C.Result(pid, tier, seed)
    pr = C.proof_step(res, pid, CONE)
    if replay:
        obj = json.load(open(replay))
        cases = obj.get("cases") or [obj["case"]]
    for c in cases:
        c["surface"] = c["line"] if c.get("interp") else "proto_vulcan_query!(|%s| { %s })" % (", ".join(c["qvars"]), ", ".join(S.goal(g) for g in c["body"]))
    lines = [c["line"] for c in cases]
    p, _, terrs = P.libdefs_path()
    exe = C.build_driver()
    model = [P.Result(m) for m in C._run_lines(exe, lines, C.rundir(pid), "model", 900, env={"OCAMLRUNPARAM": "l=64M", "PV_LIBDEFS": p})]
    # cases marked interp are built through the library API by the harness (goal values reused as Rust values cannot be
    # written in the surface syntax); all others are compiled from their printed source
    comp_idx = [k for k, c in enumerate(cases) if not c.get("interp")]
    int_idx = [k for k, c in enumerate(cases) if c.get("interp")]
    impl = [None] * len(cases)
    for k, x in zip(comp_idx, S.build_and_run(pid, [cases[k] for k in comp_idx])):
        impl[k] = P.Result(x)
    if int_idx:
        for k, x in zip(int_idx, C.run_impl(pid + "i", [cases[k]["line"] for k in int_idx])):
            impl[k] = P.Result(x)
    disagreements = []
    for k, (m, i) in enumerate(zip(model, impl)):
        why = pcheck.compare("exact", m, i)
        if why:
            disagreements.append((k, why))
    failures = oracle(cases, impl, model)
    for f in failures[:3]:
        k = f["case_index"]
        obj = dict(f)
        obj["case"] = {kk: vv for kk, vv in cases[k].items() if kk in ("line", "qvars", "body", "defs", "surface", "interp", "expect_answers", "reuse_n", "no_ref", "what")}
        obj["implementation"] = impl[k].raw[:3000]
        obj["model"] = model[k].raw[:3000]
        res.violation(obj)
    if disagreements and not failures:
        k, why = disagreements[0]
        res.violation({"theorem_or_correspondence": "correspondence Model/Engine.v (elab) vs the compiled macro expansion", "why": why,
                       "n_disagreements": len(disagreements), "case": {kk: vv for kk, vv in cases[k].items() if kk in ("line", "surface")},
                       "implementation": impl[k].raw[:3000], "model": model[k].raw[:3000]}, no_input=True)
    if not pr["ok"]:
        res.violation({"broken_obligation": pr["problems"], "theorems": pr["theorems"]}, no_input=not failures)
    ends = {}
    for i in impl:
        ends[i.end] = ends.get(i.end, 0) + 1
    res.coverage.update({
        "evaluations": len(cases), "distinct_nontrivial": len({c["line"] for c, i in zip(cases, impl) if i.answers}),
        "rule": rule, "samples": [cases[0]["surface"], cases[len(cases) // 2]["surface"], cases[-1]["surface"]],
        "impl_end_distribution": ends, "model_impl_disagreements": len(disagreements), "oracle_failures": len(failures),
        "reference_applied": sum(1 for c in cases if c.get("ref_applied")), "compiled_programs": len(cases),
    })
    if extra:
        res.coverage.update(extra(cases, impl, model))
    res.assumptions = ["the token-level parser of the proc macros is exercised only through these compiled programs (not modelled)"]
    return res.finish()


# ----------------------------------------------------------------------------- C14
def run_c14(tier, seed, replay=None):
    rnd = random.Random(seed)
    n = 260 if tier == "quick" else 1800
    cases = []
    for _ in range(n):
        g = SGen(rnd, defs=DEFS)
        q = ["q", "r", "t"][:rnd.randint(1, 3)]
        body = [g.goal(list(q), 3) for _ in range(rnd.randint(1, 3))]
        if rnd.random() < 0.2:
            body = [["dfs"] + [SGen(rnd, defs=[MEM, LEN2], allow=["eq", "neq", "conj", "fresh", "cond", "closure", "member", "call", "true"]).goal(list(q), 2, True)]]
        body = fix_closures(body)
        cases.append(mk_case(DEFS, q, body, maxans=12, budget=1500))
    # a closure-style relation whose body is DIRECTLY its recursive call (and a mutually recursive pair): the closure is the only
    # suspension point, so as a branch of a disjunction it must leave the other branches their turns
    spinc = ["def", "spinc", ["params", "x"], "closure", ["call", "spinc", "x"]]
    ping = ["def", "ping", ["params", "x"], "closure", ["call", "pong", "x"]]
    pong = ["def", "pong", ["params", "x"], "closure", ["call", "ping", "x"]]
    for _ in range(max(6, n // 40)):
        v = rnd.randint(1, 9)
        silent = rnd.choice([["call", "spinc", "q"], ["call", "ping", "q"], ["fresh", ["z"], ["call", "spinc", "z"]]])
        branches = [silent, ["eq", "q", v]]
        if rnd.random() < 0.5:
            branches.reverse()
        if rnd.random() < 0.4:
            branches.append(["eq", "q", v + 10])
        exp = [str(v)] + ([str(v + 10)] if len(branches) == 3 else [])
        cases.append(mk_case(DEFS + [spinc, ping, pong], ["q"], [["cond"] + branches], maxans=len(exp), budget=1500, no_ref=True, expect_values=exp,
                             what="a disjunction with a silently diverging closure-style relation next to finite branches"))
    # loop { a, b, .. }: the body is the conjunction of ALL its entries
    for _ in range(max(8, n // 30)):
        vals = rnd.sample(range(1, 7), 3)
        first = ["cond"] + [["eq", "q", v] for v in vals]
        rest = rnd.choice([[["neq", "q", vals[0]]], [["neq", "q", vals[0]], ["eq", "r", ["list", "q"]]], [["conj", ["neq", "q", vals[1]]], ["eq", "r", 0]]])
        cases.append(mk_case(DEFS, ["q", "r"], [["loop", first] + rest], maxans=7, budget=1500, no_ref=True,
                             expect_not=str(vals[0]) if rest[0] == ["neq", "q", vals[0]] else str(vals[1]),
                             what="loop with several body entries: every entry constrains every round"))
    # project over SEVERAL variables (1-4): each name in the body denotes the walked value of ITS variable, in the order written
    for _ in range(max(10, n // 20)):
        k = rnd.randint(1, 4)
        names = ["a", "b", "c", "d"][:k]
        vals = rnd.sample(range(1, 9), k)
        order = list(range(k)); rnd.shuffle(order)
        binds = [["eq", names[i], vals[i]] for i in order]
        if rnd.random() < 0.3:
            binds[0] = ["lib", "member", binds[0][1], ["list", binds[0][2], binds[0][2] + 10]]
        body = rnd.choice([[["eq", "q", ["list"] + names]], [["eq", names[-1], vals[-1]], ["eq", "q", names[0]]],
                           [["eq", "q", ["list"] + list(reversed(names))]]])
        cases.append(mk_case(DEFS, ["q"], [["fresh", names] + binds + [["project", names] + body]], maxans=12, budget=1500,
                             what="project over several variables: each name denotes the value of its own variable"))
    # operands that are written identically are not therefore the same term: every `_` is a new variable
    for _ in range(n // 6):
        t = rnd.choice(["_", ["ilist", "_", "q"], ["list", "_", 1], ["cons", "_", "_"], ["comp", "Pair", "_", "q"], ["list", "q", "_"],
                        ["list", ["list", "_"], 2]])
        rel = rnd.choice(["neq", "neq", "eq"])
        v = rnd.randint(1, 3)
        body = rnd.choice([[[rel, t, t], ["eq", "q", v]],
                           [["cond", ["conj", [rel, t, t], ["eq", "q", v]], ["eq", "q", v + 1]]],
                           [["eq", "q", v], [rel, t, t]],
                           [["fresh", ["x"], [rel, t, t], ["eq", "q", ["list", "x", v]]]]])
        cases.append(mk_case(DEFS, ["q"], body, maxans=12, budget=1500, what="a goal whose two operands are written identically and contain `_`: each `_` is a new variable, the operands are different terms"))
    return run_compiled("C14", tier, seed, cases, oracle_ref,
        "random surface programs over the clause grammar: ==, !=, [..] conjunctions, |x| {..}, conde/cond, closure {..}, loop {..}, onceo, "
        "true/false, library and user-defined (recursive, closure- and direct-style) relation calls, dfs {..}; terms with literals of all "
        "kinds, nested proper and improper lists, _, and four compound types; 1-3 query variables (reported in declaration order); "
        "printed as Rust source, compiled against the current macros; exact (answers, order, engine steps) against the model's "
        "elaboration of the same AST and as multisets against the reference semantics; non-trivial = at least one answer", replay)


# ----------------------------------------------------------------------------- C13
def run_c13(tier, seed, replay=None):
    rnd = random.Random(seed)
    n = 260 if tier == "quick" else 1800
    cases = []
    for _ in range(n):
        g = SGen(rnd, defs=[MEM], allow=["eq", "eq", "neq", "conj", "fresh", "cond", "member", "true", "match"])
        q = ["q", "r"][:rnd.randint(1, 2)]
        pre = [g.goal(list(q), 1)] if rnd.random() < 0.5 else []
        m = g.match(list(q) + (["x"] if rnd.random() < 0.3 else []), 2, False)
        body = pre + [m]
        if "x" in P.sx(m) and "x" not in q:
            body = [["fresh", ["x"]] + body]
        cases.append(mk_case([MEM], q, body, maxans=20, budget=2000, what="match does not have the answers of its documented expansion"))
    # alternatives that bind different names: a name an alternative does not bind denotes the enclosing variable
    for _ in range(n // 5):
        op = rnd.choice(["match", "matche", "matcha", "matchu"])
        alts = rnd.choice([[["list", "x"], ["list", "x", "y"]], [["list", "x", "y"], ["list", "x"]], [["ilist", "x", "y"], "x"],
                           ["y", ["list", "x", "_"]], [["list", "y"], ["list", "x"], ["list", "x", "y"]]])
        val = rnd.choice([["list", 1], ["list", 1, 2], ["list", 3, 4], ["ilist", 1, 2], 5])
        body_g = rnd.choice([[["eq", "x", 1]], [["eq", "x", 1], ["eq", "y", 5]], [["eq", "r", ["list", "x", "y"]]], [["neq", "y", 2], ["eq", "r", "x"]]])
        arms = [["arm", ["pats"] + alts] + body_g]
        if rnd.random() < 0.4:
            arms.append(["arm", ["pats", "_"], ["eq", "r", 0]])
        pre = rnd.choice([[], [["eq", "y", 2]], [["eq", "x", 7]]])
        cases.append(mk_case([MEM], ["q", "r"], [["fresh", ["x", "y"], ["eq", "q", val]] + pre + [[op, "q"] + arms]], maxans=20, budget=2000,
                             what="an alternative's own names must be new and the names it does not bind must denote the enclosing variables"))
    # named-field compound patterns with [] / _ / name sub-patterns against values whose fields are [], compounds or numbers:
    # a [] sub-pattern matches only []
    for _ in range(max(10, n // 12)):
        op = rnd.choice(["match", "matche", "matcha"])
        fa, fb = rnd.choice([1, "nil", ["list", 2]]), rnd.choice(["nil", ["comp", "Wrap", 3], 5, ["list", 1]])
        pats = [["comp", "Named", rnd.choice(["x", "_", 1, "nil"]), "nil"], ["comp", "Named", "nil", rnd.choice(["y", "_"])],
                ["comp", "Named", "x", "y"]]
        rnd.shuffle(pats)
        arms = [["arm", ["pats", pt], ["eq", "r", i + 1]] for i, pt in enumerate(pats[:rnd.randint(2, 3)])]
        # (the value is built through a pattern as well: a named constructor does not parse in `==` position)
        build = ["match", "q", ["arm", ["pats", ["comp", "Named", "u", "w"]], ["eq", "u", fa], ["eq", "w", fb]]]
        cases.append(mk_case([MEM], ["q", "r"], [["fresh", ["x", "y", "u", "w"], build, [op, "q"] + arms]], maxans=20, budget=2000,
                             what="a named-field compound pattern with a [] sub-pattern matches only a [] field"))
    # committed-choice matches: an arm whose pattern matches commits even when its body can never succeed (a literal false,
    # first, last or between other goals); later arms must not be tried
    for _ in range(n // 5):
        op = rnd.choice(["matcha", "matchu"])
        val = rnd.choice(["nil", ["list", 1], ["list", 1, 2], 5])
        dead_body = rnd.choice([["false"], [["eq", "r", 1], "false"], ["false", ["eq", "r", 1]], [["eq", "r", 1], "false", ["eq", "r", 2]]])
        first_pat = rnd.choice(["nil", ["ilist", "h", "t"], ["list", "a"], "_", 5, "w"])
        arms = [["arm", ["pats", first_pat]] + dead_body,
                ["arm", ["pats", "_"], ["eq", "r", 7]]]
        if rnd.random() < 0.4:
            arms.insert(0, ["arm", ["pats", ["list", 9, 9]], ["eq", "r", 9]])
        cases.append(mk_case([MEM], ["q", "r"], [["eq", "q", val], [op, "q"] + arms], maxans=20, budget=2000,
                             what="a committed-choice match whose first matching arm has a body that cannot succeed must have no answers from later arms"))
    return run_compiled("C13", tier, seed, cases, oracle_ref,
        "random match / matche / matcha / matchu expressions: 1-3 arms, patterns of depth <= 2 (names, _, literals, [], proper and improper "
        "lists, compound patterns), alternatives p1 | p2 with equal variable sets, repeated names, pattern names shadowing outer names, "
        "empty and multi-goal bodies using pattern and outer variables, possibly after another goal; compiled, and compared exactly "
        "with the model and as multisets with the reference expansion (disjunction over arms and alternatives of t == p then body; "
        "soft-cut rules for matcha/matchu); non-trivial = at least one answer", replay)


# ----------------------------------------------------------------------------- C15
def alpha(g, env, counter):
    """consistently rename every bound variable (fresh names, pattern names); free names via env"""
    if isinstance(g, str):
        return g
    k = g[0]

    def tm(t, e):
        if isinstance(t, list):
            return [t[0]] + [tm(x, e) for x in t[1:]] if t[0] not in ("s", "c") else t
        return e.get(t, t) if isinstance(t, str) else t
    if k in ("eq", "neq", "sq"):
        return [k, tm(g[1], env), tm(g[2], env)]
    if k in ("conj", "closure"):
        return [k] + [alpha(x, env, counter) for x in g[1:]]
    if k == "fresh":
        e2 = dict(env)
        names = []
        for nme in g[1]:
            counter[0] += 1
            e2[nme] = "a%d" % counter[0]
            names.append(e2[nme])
        return ["fresh", names] + [alpha(x, e2, counter) for x in g[2:]]
    if k in ("cond", "conda", "condu", "onceo", "loop", "dfs"):
        return [k] + [alpha(x, env, counter) for x in g[1:]]
    if k in ("lib", "call", "rel"):
        return [k, g[1]] + [tm(x, env) for x in g[2:]]
    if k in ("match", "matche", "matcha", "matchu"):
        arms = []
        for arm in g[2:]:
            names = []
            for p in arm[1][1:]:
                SGen(random.Random(0)).pat_vars(p, names)
            e2 = dict(env)
            for nme in names:
                counter[0] += 1
                e2[nme] = "a%d" % counter[0]
            arms.append(["arm", ["pats"] + [tm(p, e2) for p in arm[1][1:]]] + [alpha(x, e2, counter) for x in arm[2:]])
        return [k, tm(g[1], env)] + arms
    return g


def scoped(rnd, d, vis):
    """a fresh block that reuses the names x, y, z of enclosing and sibling scopes and ties the new
    variables to visible ones by variable-only equations, so that the reified answer shows which
    variables are distinct ([_0, _1] vs [_0, _0])"""
    names = rnd.sample(["x", "y", "z"], rnd.randint(1, 2))
    vis2 = [v for v in vis if v not in names] + names
    goals = []
    for _ in range(rnd.randint(1, 3)):
        k = rnd.random()
        if k < 0.45 or d <= 0:
            lhs = rnd.choice(vis2)
            rhs = [v for v in vis2 if v != lhs]
            if not rhs:
                continue
            goals.append(["eq", lhs, ["list"] + [rnd.choice(rhs + [1]) for _ in range(rnd.randint(1, 3))]] if rnd.random() < 0.8
                         else ["eq", lhs, rnd.choice(rhs)])
        elif k < 0.6:
            goals.append(scoped(rnd, d - 1, vis2))
        elif k < 0.72:
            goals.append(["cond", scoped(rnd, d - 1, vis2), scoped(rnd, d - 1, vis2)])
        elif k < 0.82:
            goals.append(["call", "len2", ["list"] + [1] * rnd.randint(0, 3), rnd.choice(vis2)])
        elif k < 0.9:
            goals.append(["call", "mem", rnd.choice(vis2), ["ilist", rnd.choice(vis2), rnd.choice(vis2), "_"]])
        else:
            v = rnd.choice(vis2)
            goals.append(["match", v, ["arm", ["pats", ["list", "x", "y"]], ["eq", rnd.choice(vis2), ["list", "y", "x"]]],
                          ["arm", ["pats", ["ilist", "x", "x", "y"]], scoped(rnd, d - 1, vis2 + ["x", "y"])]])
    return ["fresh", names] + (goals or ["true"])


def run_c15(tier, seed, replay=None):
    rnd = random.Random(seed)
    n = 130 if tier == "quick" else 900
    cases = []
    for _ in range(n):
        g = SGen(rnd, defs=DEFS, allow=["eq", "eq", "neq", "conj", "fresh", "fresh", "cond", "closure", "member", "call", "match"])
        q = ["q", "r"][:rnd.randint(1, 2)]
        body = fix_closures([g.goal(list(q), 3) for _ in range(rnd.randint(1, 3))])
        if rnd.random() < 0.55:
            body = [scoped(rnd, 2, list(q)) for _ in range(rnd.randint(1, 2))]
        elif rnd.random() < 0.35:
            # a pattern name equal to the name of the matched variable: the pattern variable is new,
            # the matched term is the outer one
            l = rnd.choice(["x", "y", "l"])
            val = rnd.choice([["list", 1, 2, 3], ["list", q[0], 2], ["ilist", 1, 2, q[-1]], ["list", ["list", 4], 5]])
            arms = [["arm", ["pats", rnd.choice([["ilist", l, "_"], ["ilist", "_", l], ["list", l, "_", "_"], ["ilist", l, "w"]])],
                     ["eq", q[0], rnd.choice([l, ["list", l, l]])]]]
            if rnd.random() < 0.5:
                arms.append(["arm", ["pats", l], ["eq", q[-1], ["list", l]]])
            body = [["fresh", [l], ["eq", l, val], [rnd.choice(["match", "matche", "matcha", "matchu"]), l] + arms]]
        k = len(cases)
        cases.append(mk_case(DEFS, q, body, maxans=15, budget=2000, renamed_of=None))
        cnt = [0]
        cases.append(mk_case(DEFS, q, [alpha(x, {}, cnt) for x in body], maxans=15, budget=2000, renamed_of=k, no_ref=True))

    def oracle(cs, impl, model):
        fails = oracle_ref(cs, impl, model)
        for k, c in enumerate(cs):
            if "expect_answers" in c and not impl[k].error and impl[k].end == "done" and len(impl[k].answers) != c["expect_answers"]:
                fails.append({"case_index": k, "what": "one closure goal value entered %d times on the same path: every entry re-evaluates the body and draws "
                              "new variables, so the conjunction has %d answers, not %d" % (c["reuse_n"], c["expect_answers"], len(impl[k].answers))})
        for k, c in enumerate(cs):
            o = c.get("renamed_of")
            if o is None or impl[k].error or impl[o].error:
                continue
            if seq_of(impl[k]) != seq_of(impl[o]) or impl[k].end != impl[o].end:
                fails.append({"case_index": k, "what": "consistently renaming the bound variables changed the answers",
                              "original": cs[o].get("surface", ""), "original_answers": impl[o].raw[:1500]})
        return fails
    # alternatives of one arm that bind DIFFERENT names: a name only a later alternative binds is a new variable of that
    # alternative, not the same-named variable of an enclosing scope
    for _ in range(max(10, n // 6)):
        op = rnd.choice(["match", "match", "matche", "matcha"])
        alts = rnd.choice([[["list", "x"], ["list", "x", "y"]], [["list", "x"], ["ilist", "x", "y"]], ["x", ["list", "x", "y"]],
                           [["list", "y"], ["list", "x"], ["list", "x", "y"]]])
        val = rnd.choice([["list", 1], ["list", 1, 2], ["list", 3, 4]])
        body_g = rnd.choice([[["eq", "x", 1]], [["eq", "r", ["list", "x"]]], [["neq", "x", 9], ["eq", "r", "x"]]])
        pre = rnd.choice([[["eq", "y", 5]], [["eq", "y", 5], ["eq", "x", 7]], [["eq", "y", ["list", 0]]]])
        cases.append(mk_case(DEFS, ["q", "r"], [["fresh", ["x", "y"], ["eq", "q", val]] + pre + [[op, "q", ["arm", ["pats"] + alts] + body_g]]],
                             maxans=20, budget=2000, what="a name bound only by a later alternative of an arm must be new, not the enclosing variable of that name"))
    # ONE closure goal value (a closure-style relation call, a closure { } block) entered several times on the same path:
    # each entry re-evaluates the body, so its fresh variables are new each time (built through the API by the harness)
    draw = ["def", "draw", ["params", "l"], "closure", ["fresh", ["x"], ["lib", "member", "x", "l"]]]
    drawq = ["def", "drawq", ["params", "l", "o"], "closure", ["fresh", ["x", "y"], ["lib", "member", "x", "l"], ["eq", "o", ["list", "x", "y"]]]]
    for _ in range(max(12, n // 5)):
        k = rnd.randint(2, 3)
        times = rnd.randint(2, 3)
        vals = ["list"] + rnd.sample([1, 2, 3, 4, 5], k)
        shape = rnd.random()
        if shape < 0.4:
            g = ["call", "draw", vals]
        elif shape < 0.7:
            g = ["closure", ["fresh", ["x"], ["lib", "member", "x", vals]]]
        else:
            g = ["closure", ["match", vals, ["arm", ["pats", ["ilist", "_", "_"]], ["fresh", ["w"], ["lib", "member", "w", vals]]]]]
        body = [["reuse", times, g]]
        if rnd.random() < 0.3:
            body.append(["eq", "q", 0])
        cases.append(mk_case([draw, drawq], ["q"], body, maxans=60, budget=6000, interp=True, expect_answers=k ** times, reuse_n=times, no_ref=True))
    return run_compiled("C15", tier, seed, cases, oracle,
        "random programs with nested fresh blocks and pattern arms that reuse names of enclosing scopes (shadowing), the same names in "
        "sibling scopes, and recursive relations whose bodies introduce fresh variables at every unfolding; every program is compiled as "
        "written and with all bound variables consistently renamed apart: the two answer sequences must be identical, and equal to the "
        "model's; non-trivial = at least one answer", replay,
        extra=lambda cs, i, m: {"renamed_pairs": sum(1 for c in cs if c.get("renamed_of") is not None)})
