from .surfc import run_c13 as run
