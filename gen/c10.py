from .searchc import run_c10 as run
