"""Generic driver of a program-based check: proof obligations, correspondence (implementation vs
extracted model on the same programs), the property's own oracle on the implementation's outputs,
and the reporting protocol."""
import json, os, time
from . import common as C
from . import progs as P


def compare(mode, m, i):
    """None if the model result m and the implementation result i agree at the observable `mode`."""
    if m.error or i.error:
        # a model error line (parse failure etc.) is a framework problem, an impl panic is an outcome
        if i.error and i.error.startswith("panic") and m.end and m.end.startswith("panic"):
            return None
        return "error: model=%s impl=%s" % (m.error or m.end, i.error or i.end)
    if mode == "exact":
        if m.seq() != i.seq():
            return "answer sequences differ"
        if m.end != i.end:
            return "end differs: model=%s impl=%s" % (m.end, i.end)
        if m.steps() != i.steps():
            return "engine step counts differ: model=%s impl=%s" % (m.steps(), i.steps())
        return None
    if mode == "seq":
        if m.seq() != i.seq():
            return "answer sequences differ"
        if m.end != i.end:
            return "end differs: model=%s impl=%s" % (m.end, i.end)
        return None
    if mode == "bag":
        if m.end != "done" or i.end != "done":
            if m.end != i.end:
                return "end differs: model=%s impl=%s" % (m.end, i.end)
            return None
        if m.bag() != i.bag():
            return "answer multisets differ"
        return None
    if mode == "bag_terms":
        if m.end != i.end:
            return "end differs: model=%s impl=%s" % (m.end, i.end)
        if m.end == "done" and m.bag(False) != i.bag(False):
            return "answer multisets differ"
        return None
    raise ValueError(mode)


COLLECT = None   # C23: when a list, run_check only records (generator, case) and returns


def run_check(pid, tier, seed, cases, mode, oracle, cone=None, replay=None, rule="", assumptions=(),
              extra_cov=None, known_classifier=None, nontrivial=None, profile="debug"):
    """cases: list of dicts with at least 'line' (the program) and free-form metadata.
    oracle(cases, impl_results, model_results) -> list of failure dicts {case_index, what, ...}."""
    if COLLECT is not None:
        COLLECT.extend((pid, c) for c in cases)
        return 0
    res = C.Result(pid, tier, seed)
    pr = C.proof_step(res, pid, cone)
    if replay:
        obj = json.load(open(replay))
        cases = obj.get("cases") or [obj["case"]]
    lines = [c["line"] for c in cases]
    model, impl, terrs = P.run_both(pid, lines, profile=profile)
    disagreements = []
    for k, (m, i) in enumerate(zip(model, impl)):
        why = compare(cases[k].get("mode", mode), m, i)
        if why:
            disagreements.append((k, why))
    failures = oracle(cases, impl, model) if oracle else []
    known = C.load_known()
    known_ids = {k["id"]: k for k in known["findings"] if k["property"] == pid}
    reported = 0
    seen_known = set()
    for f in failures:
        k = f["case_index"]
        kid = known_classifier(cases[k], f, known_ids) if known_classifier else None
        if kid:
            if kid not in seen_known:
                res.known_finding("%s: %s (e.g. %s)" % (kid, known_ids[kid].get("detail", ""), cases[k]["line"][:200]))
                seen_known.add(kid)
            continue
        if reported < 3:
            obj = dict(f)
            obj["case"] = cases[k]
            obj["implementation"] = impl[k].raw[:4000]
            obj["model"] = model[k].raw[:4000]
            res.violation(obj)
        reported += 1
    known_disagree = 0
    if disagreements and not reported:
        # the correspondence broke but the property's oracle accepts everything the implementation did
        unexplained = []
        for k, why in disagreements:
            kid = known_classifier(cases[k], {"what": why, "correspondence": True}, known_ids) if known_classifier else None
            if kid:
                known_disagree += 1
                if kid not in seen_known:
                    res.known_finding("%s: %s (e.g. %s)" % (kid, known_ids[kid].get("detail", ""), cases[k]["line"][:200]))
                    seen_known.add(kid)
            else:
                unexplained.append((k, why))
        if unexplained:
            k, why = unexplained[0]
            res.violation({"theorem_or_correspondence": "correspondence Model/Engine.v vs /repo at observable '%s'" % mode,
                           "why": why, "n_disagreements": len(unexplained), "case": cases[k],
                           "implementation": impl[k].raw[:4000], "model": model[k].raw[:4000],
                           "explanation": "model and implementation disagree; the property's oracle found no failing input among %d cases" % len(cases)},
                          no_input=True)
    if not pr["ok"]:
        res.violation({"broken_obligation": pr["problems"], "theorems": pr["theorems"],
                       "explanation": "proof obligations of %s no longer check" % pid}, no_input=(reported == 0))
    if terrs:
        res.violation({"theorem_or_correspondence": "translator gen/pv2sexp.py cannot parse the library relations",
                       "errors": terrs}, no_input=(reported == 0))
    ends = {}
    nans = 0
    for i in impl:
        ends[i.end] = ends.get(i.end, 0) + 1
        nans += len(i.answers)
    if nontrivial is None:
        nontrivial = lambda c, i, m: len(i.answers) > 0
    distinct = len({c["line"] for c, i, m in zip(cases, impl, model) if nontrivial(c, i, m)})
    cov = {
        "evaluations": len(cases), "distinct_nontrivial": distinct, "rule": rule,
        "samples": [c["line"] for c in cases[:2]] + ([cases[len(cases) // 2]["line"], cases[-1]["line"]] if len(cases) > 3 else []),
        "impl_end_distribution": ends, "impl_answers_total": nans,
        "model_impl_disagreements": len(disagreements), "oracle_failures": len(failures),
        "correspondence_observable": mode, "translator_errors": terrs,
    }
    if extra_cov:
        cov.update(extra_cov(cases, impl, model))
    res.coverage.update(cov)
    res.assumptions = list(assumptions)
    return res.finish()
