from .treec import run_c03 as run
