"""Checks of the tree-constraint properties C02, C03, C04, C12, C22."""
import itertools, random
from . import common as C
from . import progs as P
from . import pcheck
from .refsem import Ref, Diverged, Unsupported
from .searchc import mk_case, seq_of, bag_of, reference, show_ref

CONE_D = ["Proofs/DiseqProofs.vo", "Proofs/EngineProofs.vo", "Proofs/SemProofs.vo", "Proofs/MonoProofs.vo", "Proofs/DenProofs.vo", "Proofs/DisunifyC.vo", "Proofs/Complete0.vo"]
PURE = ["eq", "eq", "neq", "neq", "cond", "fresh", "conj"]

# ground universe for instance enumeration: program constants, fresh atoms, short lists
UNIVERSE = [("a", "1"), ("a", "2"), ("a", "3"), ("a", '"zz"'), ("nil",),
            ("cons", ("a", "1"), ("nil",)), ("cons", ("a", '"zz"'), ("cons", ("a", "2"), ("nil",)))]


def match(pat, g, b):
    """match an answer term (with _i variables) against a ground term"""
    if pat[0] == "v":
        if pat[1] in b:
            return b[pat[1]] == g
        b[pat[1]] = g
        return True
    if pat[0] != g[0]:
        return False
    if pat[0] == "a":
        return pat[1] == g[1]
    if pat[0] == "nil":
        return True
    if pat[0] == "cons":
        return match(pat[1], g[1], b) and match(pat[2], g[2], b)
    if pat[0] == "comp":
        return pat[1] == g[1] and len(pat[2]) == len(g[2]) and all(match(x, y, b) for x, y in zip(pat[2], g[2]))
    return False


def subst(t, b):
    if t[0] == "v":
        return b.get(t[1], t)
    if t[0] == "cons":
        return ("cons", subst(t[1], b), subst(t[2], b))
    if t[0] == "comp":
        return ("comp", t[1], tuple(subst(x, b) for x in t[2]))
    return t


def answer_instances(ans, nq):
    """set of ground tuples over UNIVERSE^nq that are instances of the answer (terms, solved-form constraints)"""
    terms = [P.to_term(P.parse_all(t)[0]) for t in ans[0]]
    out = set()
    for tup in itertools.product(UNIVERSE, repeat=nq):
        b = {}
        if not all(match(p, g, b) for p, g in zip(terms, tup)):
            continue
        ok = True
        for c in ans[1]:
            if c is None:
                continue
            # a disequality in solved form: violated iff every equation holds
            if all(subst(("v", k), b) == subst(P.to_term(P.parse_all(v)[0]), b) for k, v in c):
                ok = False
                break
        if ok:
            out.add(tup)
    return frozenset(out)


def ground_term_sexp(g):
    if g[0] == "a":
        return ["s", "9"] if g[1] == '"zz"' else g[1]
    if g[0] == "nil":
        return "nil"
    return ["cons", ground_term_sexp(g[1]), ground_term_sexp(g[2])]


def program_solutions(case, libdefs):
    """ground tuples over UNIVERSE^nq that solve the program, by the reference semantics"""
    out = set()
    nq = len(case["qvars"])
    for tup in itertools.product(UNIVERSE, repeat=nq):
        pre = [["eq", q, ground_term_sexp(g)] for q, g in zip(case["qvars"], tup)]
        ref = Ref(defs=case.get("defs", []), libdefs=libdefs, work=20000)
        try:
            if ref.run(case["qvars"], pre + case["body"]):
                out.add(tup)
        except (Diverged, Unsupported, RecursionError):
            return None
    return frozenset(out)


def zz(t):
    """the universe's fresh atom is the string "s9" on the implementation side"""
    return t


def norm_inst(s):
    return frozenset(tuple(("a", '"zz"') if x == ("a", '"s9"') else x for x in tup) for tup in s)


def fix_atoms(ans):
    return ans


# ----------------------------------------------------------------------------- C02
def oracle_c02(cases, impl, model):
    _, libdefs, _ = P.libdefs_path()
    fails = []
    for k, (c, i) in enumerate(zip(cases, impl)):
        if not i.error and i.end == "done" and "expect_answers" in c and len(i.answers) != c["expect_answers"]:
            fails.append({"case_index": k, "what": "a list with a variable tail and a list of another written length: with the tail bound the two "
                          "sides are %s, so the program has %d answer(s), not %d" % ("different" if c["expect_answers"] else "equal", c["expect_answers"], len(i.answers))})
        if i.error or i.end != "done" or not c.get("ground_check"):
            continue
        sols = program_solutions(c, libdefs)
        if sols is None:
            continue
        c["ground_checked"] = True
        inst = set()
        for a in i.answers:
            terms = tuple(t.replace('"s9"', '"zz"') for t in a[0])
            cons = [None if f is None else tuple((kk, vv.replace('"s9"', '"zz"')) for kk, vv in f) for f in a[1]]
            inst |= answer_instances((terms, cons), len(c["qvars"]))
        if inst != sols:
            extra = sorted(map(str, inst - sols))[:3]
            missing = sorted(map(str, sols - inst))[:3]
            fails.append({"case_index": k, "what": "ground instances of the answers differ from the program's ground solutions",
                          "instances_that_are_not_solutions": extra, "solutions_that_are_not_instances": missing})
    # order-freedom: permutations of the same conjunction
    groups = {}
    for k, c in enumerate(cases):
        if "perm_group" in c:
            groups.setdefault(c["perm_group"], []).append(k)
    for g, ks in groups.items():
        base = None
        for k in ks:
            if impl[k].error or impl[k].end != "done":
                continue
            b = bag_of(seq_of(impl[k]))
            if base is None:
                base = (k, b)
            elif b != base[1]:
                fails.append({"case_index": k, "what": "a permutation of the same goals gives different answers",
                              "other_order": cases[base[0]]["line"], "other_answers": impl[base[0]].raw[:1500]})
    return fails


def gen_pure(rnd, depth=2, comps=False, nq=None, consts=(1, 2, 3)):
    g = P.Gen(rnd, allow=PURE, depth=depth, comps=comps, consts=consts)
    q = ["q", "r"][: (nq or rnd.randint(1, 2))]
    return g, q


def run_c02(tier, seed, replay=None):
    rnd = random.Random(seed)
    n = 260 if tier == "quick" else 2500
    cases = []
    for _ in range(n):
        g, q = gen_pure(rnd)
        body = [g.goal(list(q)) for _ in range(rnd.randint(1, 4))]
        cases.append(mk_case([], q, body, ground_check=True))
    # every permutation of small conjunctions of ==/!= goals
    for grp in range(n // 6):
        g, q = gen_pure(rnd, depth=1)
        goals = [g.goal(list(q), 0) for _ in range(rnd.randint(2, 4))]
        perms = list(itertools.permutations(goals))
        if len(perms) > 8:
            perms = rnd.sample(perms, 8)
        for pm in perms:
            cases.append(mk_case([], q, list(pm), perm_group=grp, ground_check=(pm == perms[0])))
    # subsumption between stored and new constraints, the pattern the pinned tree got wrong
    for _ in range(n // 6):
        a, b = rnd.randint(1, 3), rnd.randint(1, 3)
        goals = [["neq", "q", a], ["neq", ["list", "q", "r"], ["list", a, b]], ["eq", "q", rnd.randint(1, 3)], ["eq", "r", rnd.randint(1, 3)]]
        rnd.shuffle(goals)
        cases.append(mk_case([], ["q", "r"], goals, ground_check=True))
    # multi-pair disequalities whose keys are later aliased or partially bound (re-check threads its pairs)
    for _ in range(n // 3):
        a, b, c = rnd.randint(1, 3), rnd.randint(1, 3), rnd.randint(1, 3)
        first = rnd.choice([["neq", ["list", "q", "r"], ["list", a, b]], ["neq", ["list", "q", "r", "q"], ["list", a, b, c]],
                            ["neq", ["cons", "q", "r"], ["cons", "r", a]], ["neq", ["list", "q", ["list", "r"]], ["list", a, ["list", b]]]])
        then = rnd.choice([[["eq", "q", "r"]], [["eq", "q", "r"], ["eq", "r", rnd.randint(1, 3)]], [["eq", "r", "q"]],
                           [["fresh", ["z"], ["eq", "q", "z"], ["eq", "z", "r"]]], [["eq", ["list", "q"], ["list", "r"]]],
                           [["cond", ["eq", "q", "r"], ["eq", "q", a]]]])
        goals = [first] + then
        if rnd.random() < 0.3:
            rnd.shuffle(goals)
        cases.append(mk_case([], ["q", "r"], goals, ground_check=True))
    # a disequality between two variables that are then aliased THROUGH a third one (every orientation, every order)
    for grp2 in range(n // 8):
        ne = rnd.choice([["neq", "q", "r"], ["neq", "r", "q"], ["neq", "q", ["list", "r", 1]]])
        e1 = rnd.choice([["eq", "r", "t"], ["eq", "t", "r"]])
        e2 = rnd.choice([["eq", "t", "q"], ["eq", "q", "t"]]) if ne[2] in ("q", "r") else rnd.choice([["eq", "q", ["list", "t", 1]], ["eq", ["list", "t", 1], "q"]])
        extra = [rnd.choice([["eq", "t", 2], ["neq", "t", 2]])] if rnd.random() < 0.3 else []
        pool = [ne, e1, e2] + extra
        for pm in itertools.permutations(pool):
            cases.append(mk_case([], ["q", "r", "t"], list(pm), perm_group=10000 + grp2, ground_check=False))
    # lists with a variable tail against lists of a DIFFERENT written length: they differ only as long as the tail is open
    for _ in range(n // 3):
        k = rnd.randint(1, 2)
        full = [rnd.randint(1, 3) for _ in range(k + rnd.randint(1, 2))]
        head = full[:k] if rnd.random() < 0.7 else [rnd.randint(1, 3) for _ in range(k)]
        open_l = ["ilist"] + head + ["t"]
        closed = ["list"] + full
        tail_val = rnd.choice([["list"] + full[k:], ["list"] + full[k:], "nil", ["list", rnd.randint(1, 3)], ["ilist"] + full[k:k + 1] + ["r"]])
        sides = [open_l, closed] if rnd.random() < 0.5 else [closed, open_l]
        form = rnd.random()
        if form < 0.4:
            goals = [["neq"] + sides, ["eq", "t", tail_val]]
        elif form < 0.8:
            goals = [["eq", "q", open_l], ["neq", "q", closed] if rnd.random() < 0.5 else ["neq", closed, "q"], ["eq", "t", tail_val]]
        else:
            goals = [["eq", "q", open_l], ["eq", "r", closed], ["neq", "q", "r"], ["eq", "t", tail_val]]
        if rnd.random() < 0.3:
            rnd.shuffle(goals)
        meta = {}
        if rnd.random() < 0.3:
            goals = goals[:-1]             # the tail stays open: the constraint must be reported
        elif tail_val == "nil" or (tail_val[0] == "list"):
            tv = [] if tail_val == "nil" else tail_val[1:]
            meta["expect_answers"] = 0 if head + tv == full else 1
        cases.append(mk_case([], ["q", "r", "t"], goals, ground_check=False, **meta))
    return pcheck.run_check("C02", tier, seed, cases, "exact", oracle_c02, cone=CONE_D, replay=replay,
        rule="programs of ==, !=, conjunction, conde and fresh over terms of depth <= 2 with <= 2 query variables; permutation groups of "
             "2-4 goals; subsumption patterns; ground oracle: the instances of the reported answers over a 7-element universe (constants, "
             "a fresh atom, two lists) must be exactly the tuples the reference semantics accepts; non-trivial = at least one answer",
        assumptions=["the finite universe is used only to search for counterexamples; the theorems quantify over all substitutions"],
        extra_cov=lambda cs, i, m: {"ground_checked": sum(1 for c in cs if c.get("ground_checked")),
                                    "permutation_groups": len({c["perm_group"] for c in cs if "perm_group" in c})})


# ----------------------------------------------------------------------------- C03
def oracle_c03(cases, impl, model):
    fails = []
    for k, (c, i) in enumerate(zip(cases, impl)):
        if i.error:
            continue
        for item in P.parse_all(i.raw):
            if item[0] != "ans":
                continue
            terms = [P.to_term(x) for x in item[1]]
            if c.get("expect_constrained") and not [cc for cc in item[2] if cc != ["other"]]:
                fails.append({"case_index": k, "what": "the program posts a disequality on a variable that stays unbound and occurs in the answer, "
                              "but the answer reports no constraint: %s" % (item[1],)})
                break
            tv = []
            for t in terms:
                P.term_vars(t, tv)
            bad = [v for v in tv if not v.startswith("_")]
            if bad:
                fails.append({"case_index": k, "what": "an answer term contains a variable that is not a reified _ variable: %s" % bad})
                break
            cons = [[(P.to_term(p[0]), P.to_term(p[1])) for p in cc] for cc in item[2] if cc != ["other"]]
            for cc in cons:
                cv = []
                for a, b in cc:
                    P.term_vars(a, cv); P.term_vars(b, cv)
                stray = [v for v in cv if v not in tv]
                if stray:
                    fails.append({"case_index": k, "what": "a reported constraint mentions %s, which is not a reified variable of the answer" % stray})
                    break
            # constraints() per query variable
            for qi, (t, rel) in enumerate(zip(terms, item[3])):
                mine = []
                P.term_vars(t, mine)
                expect = sorted(P.sx(cc) for cc in item[2] if cc != ["other"] and
                                any(P.to_term(p[0])[1] in mine or (P.to_term(p[1])[0] == "v" and P.to_term(p[1])[1] in mine) for p in cc))
                got = sorted(P.sx(cc) for cc in rel if cc != ["other"])
                if expect != got:
                    fails.append({"case_index": k, "what": "constraints() of query variable %d returns %s, expected %s" % (qi, got, expect)})
                    break
    return fails


def run_c03(tier, seed, replay=None):
    rnd = random.Random(seed)
    n = 500 if tier == "quick" else 4000
    cases = []
    for _ in range(n):
        g, q = gen_pure(rnd, comps=True)
        q = ["q", "r", "t"][:rnd.randint(1, 3)]
        body = [g.goal(list(q)) for _ in range(rnd.randint(1, 4))]
        cases.append(mk_case([], q, body))
    # constraints on hidden variables and on variables nested in compounds / lists
    for _ in range(n // 4):
        k = rnd.randint(1, 3)
        wrap = rnd.choice([lambda x: ["comp", "Pair", 1, x], lambda x: ["list", x, 2], lambda x: ["comp", "Wrap", ["list", x]],
                           lambda x: ["ilist", 1, x], lambda x: ["comp", "Named", x, ["comp", "Wrap", x]]])
        body = [["fresh", ["x", "y"], ["eq", "q", wrap("x")], ["neq", "x", k], rnd.choice([["neq", "q", "y"], ["neq", "y", k], ["neq", ["list", "x", "y"], ["list", 1, 2]]])]]
        cases.append(mk_case([], ["q"], body))
    for _ in range(n // 4):
        k = rnd.randint(1, 3)
        other = rnd.choice([["comp", "Pair", "r", "y"], ["comp", "Pair", "y", k], ["list", 0, ["comp", "Pair", "x", "y"]],
                            ["comp", "Named", ["comp", "Wrap", "y"], "q"], ["comp", "Tri", "r", k, "y"], ["list", "r", "y"],
                            ["comp", "Pair", "r", ["list", "y"]], ["comp", "Wrap", "r"], ["comp", "Pair", "r", "r"]])
        body = [["fresh", ["x", "y"], ["neq", rnd.choice(["q", "r", ["list", "q", "r"]]), other]] +
                ([["eq", "x", "r"]] if rnd.random() < 0.5 else [])]
        cases.append(mk_case([], ["q", "r"], body))
    # a disequality whose value side has a variable NESTED in a list / compound, and that variable is bound (before or
    # after) to a hidden fresh variable or to a structure holding one: the constraint is irrelevant to the answer
    for _ in range(n // 5):
        k = rnd.randint(1, 3)
        val = rnd.choice([["list", "a", k], ["comp", "Pair", k, "a"], ["list", ["list", "a"], k], ["comp", "Wrap", ["list", "a", "a"]],
                          ["ilist", k, "a"], ["comp", "Named", "a", k]])
        bind = rnd.choice([["eq", "a", "b"], ["eq", "a", ["list", "b"]], ["eq", "a", ["comp", "Pair", "b", "c"]], ["eq", "b", "a"],
                           ["eq", ["list", "a", "c"], ["list", ["list", "b"], "b"]]])
        lhs = rnd.choice(["q", ["list", "q", 0], "r"])
        gs = [["neq", lhs, val], bind]
        if rnd.random() < 0.5:
            gs.reverse()
        if rnd.random() < 0.3:
            gs.append(["neq", "r", k])          # a relevant constraint next to the irrelevant one
        cases.append(mk_case([], ["q", "r"], [["fresh", ["a", "b", "c"]] + gs]))
    # a query variable bound TO an anonymous `_` written in the program (the `_` is the representative of the class), with a
    # disequality on that class: the answer shows a reified variable and must carry the constraint
    for _ in range(n // 4):
        v = rnd.randint(1, 9)
        bind = rnd.choice([[["eq", "q", "_"]], [["eq", "_", "q"]], [["eq", ["list", "x", 1], ["list", "_", 1]], ["eq", "q", "x"]],
                           [["eq", "q", ["list", 0, "x"]], ["eq", "x", "_"]], [["eq", "x", "_"], ["eq", "q", ["comp", "Pair", "x", "x"]]],
                           [["eq", ["list", "q", "r"], ["list", "_", "_"]]]])
        tgt = "q" if bind[0][1] in ("q", "_") and len(bind) == 1 else ("x" if any("x" in map(str, b[1:]) or b[1] == "x" for b in bind) else "q")
        if bind == [[["eq", ["list", "q", "r"], ["list", "_", "_"]]]][0]:
            tgt = rnd.choice(["q", "r"])
        neq = ["neq", tgt, v] if rnd.random() < 0.5 else ["neq", v, tgt]
        goals = bind + [neq] if rnd.random() < 0.6 else [neq] + bind
        cases.append(mk_case([], ["q", "r"], [["fresh", ["x"]] + goals], expect_constrained=True))
    return pcheck.run_check("C03", tier, seed, cases, "exact", oracle_c03, cone=["Proofs/ReifyProofs.vo", "Proofs/EngineProofs.vo", "Proofs/ScopeReify.vo"], replay=replay,
        rule="programs of ==, !=, fresh, conde over lists and four compound types with 1-3 query variables sharing free variables, plus "
             "constraints on hidden variables and on variables nested in compounds/lists; every answer is checked: only reified variables in "
             "terms, constraints mention only variables of the answer, constraints() per query variable; non-trivial = at least one answer",
        extra_cov=lambda cs, i, m: {"answers_with_constraints": sum(1 for x in i for a in x.answers if a[1])})


# ----------------------------------------------------------------------------- C04
def inst_bag(res, nq):
    out = []
    for a in res.answers:
        terms = tuple(t.replace('"s9"', '"zz"') for t in a[0])
        cons = [None if f is None else tuple((kk, vv.replace('"s9"', '"zz"')) for kk, vv in f) for f in a[1]]
        out.append(tuple(sorted(map(str, answer_instances((terms, cons), nq)))))
    return sorted(out)


def oracle_c04(cases, impl, model):
    fails = []
    groups = {}
    for k, c in enumerate(cases):
        groups.setdefault(c["perm_group"], []).append(k)
    for g, ks in groups.items():
        base = None
        for k in ks:
            if impl[k].error or impl[k].end != "done":
                continue
            b = bag_of(seq_of(impl[k]))
            if base is None:
                base = (k, b)
                continue
            if b != base[1]:
                nq = len(cases[k]["qvars"])
                if inst_bag(impl[k], nq) != inst_bag(impl[base[0]], nq) or len(impl[k].answers) != len(impl[base[0]].answers):
                    fails.append({"case_index": k, "what": "reordering changes the multiset of answers",
                                  "other_order": cases[base[0]]["line"], "other_answers": impl[base[0]].raw[:1500]})
    return fails


def permute_goal(rnd, g):
    """randomly permute the goals of conjunctions and the clauses of disjunctions inside g"""
    if not isinstance(g, list):
        return g
    k = g[0]
    if k in ("conj", "cond"):
        items = [permute_goal(rnd, x) for x in g[1:]]
        rnd.shuffle(items)
        return [k] + items
    if k == "fresh":
        items = [permute_goal(rnd, x) for x in g[2:]]
        rnd.shuffle(items)
        return [k, g[1]] + items
    return g


def run_c04(tier, seed, replay=None):
    rnd = random.Random(seed)
    n = 150 if tier == "quick" else 1200
    cases = []
    grp = 0
    for _ in range(n):
        g, q = gen_pure(rnd)
        goals = [g.goal(list(q)) for _ in range(rnd.randint(2, 4))]
        perms = list(itertools.permutations(goals))
        if len(perms) > 6:
            perms = [perms[0]] + rnd.sample(perms[1:], 5)
        for pm in perms:
            cases.append(mk_case([], q, [permute_goal(rnd, x) if pm != perms[0] else x for x in pm], perm_group=grp))
        grp += 1
    # a disequality whose pairs share a variable, its keys bound one at a time, in every order
    for _ in range(n // 3):
        a, b = rnd.sample([1, 2, 3], 2)
        first = rnd.choice([["neq", ["list", "q", "r"], ["list", "t", "t"]], ["neq", ["list", "q", "r", "t"], ["list", "t", a, "q"]],
                            ["neq", ["cons", "q", "r"], ["cons", "t", "t"]]])
        pool = [first, ["eq", "q", a], ["eq", "r", rnd.choice([a, b])], ["cond", ["eq", "t", a], ["eq", "t", b]]]
        perms = list(itertools.permutations(pool))
        perms = [perms[0]] + rnd.sample(perms[1:], 7)
        for pm in perms:
            cases.append(mk_case([], ["q", "r", "t"], list(pm), perm_group=grp))
        grp += 1
    # a weaker multi-pair disequality and a stronger one sharing a pair (posted directly, or derived when an
    # equality simplifies another multi-pair disequality), with the equalities that decide them, in every order
    for _ in range(n // 3):
        a, b, c = rnd.sample([1, 2, 3, 4], 3)
        fam = rnd.choice([
            [["neq", ["list", "q", "r"], ["list", a, b]], ["neq", "q", a], ["eq", "q", a]],
            [["neq", ["list", "q", "r"], ["list", a, b]], ["neq", "q", a], ["eq", "q", a], ["eq", "r", rnd.choice([b, c])]],
            [["neq", ["list", "q", "r"], ["list", a, b]], ["neq", ["list", "r", "t"], ["list", b, c]], ["eq", "q", a], ["eq", "r", b],
             ["eq", "t", rnd.choice([a, c])]],
            [["neq", ["list", "q", "r"], ["list", a, b]], ["neq", ["list", "q", "t"], ["list", a, c]], ["eq", ["list", "r", "t"], ["list", b, c]]],
            [["neq", ["list", "q", "r"], ["list", a, b]], ["neq", "r", b], ["cond", ["eq", "q", a], ["eq", "q", c]], ["eq", "r", b]],
        ])
        perms = list(itertools.permutations(fam))
        if len(perms) > 10:
            perms = [perms[0]] + rnd.sample(perms[1:], 9)
        for pm in perms:
            cases.append(mk_case([], ["q", "r", "t"], list(pm), perm_group=grp))
        grp += 1
    # finite-domain programs: every posting order
    for _ in range(n // 2):
        lo, hi = rnd.randint(-2, 0), rnd.randint(1, 3)
        pool = [["dom", ["list", "q", "r"], ["i", lo, hi]], rnd.choice([["rel", "ltfd", "q", "r"], ["rel", "plusfd", "q", "r", rnd.randint(lo, hi)],
                ["rel", "diseqfd", "q", "r"], ["rel", "minusfd", "q", 1, "r"], ["rel", "timesfd", "q", "r", rnd.randint(-2, 4)]]),
                rnd.choice([["eq", "q", rnd.randint(lo, hi)], ["rel", "ltefd", "r", rnd.randint(lo, hi)], ["neq", "q", "r"],
                            ["cond", ["eq", "q", lo], ["eq", "r", hi]]])]
        perms = list(itertools.permutations(pool))
        for pm in perms:
            # a constraint may only mention variables that get a domain before labeling: keep the domain goal anywhere (C16 allows any order)
            cases.append(mk_case([], ["q", "r"], list(pm), perm_group=grp, mode="bag"))
        grp += 1
    # several domains for one variable (dense and sparse, a later one removing only interior values), and an equation between
    # two domained variables, in every order: the intersection does not depend on which domain arrives first
    for _ in range(n // 3):
        lo = rnd.randint(-1, 1)
        dense = list(range(lo, lo + rnd.randint(3, 6)))
        sparse = [dense[0]] + [v for v in dense[1:-1] if rnd.random() < 0.5] + [dense[-1]]
        if len(sparse) == len(dense):
            sparse.remove(dense[1])
        third = rnd.choice([["dom", "q", ["v"] + [v for v in dense if rnd.random() < 0.7 or v == dense[0]]],
                            ["dom", "r", ["i", dense[0], dense[-1]]], ["rel", "ltefd", "q", dense[-1]], ["neq", "q", "r"]])
        form = rnd.random()
        if form < 0.5:
            pool = [["dom", "q", ["i", dense[0], dense[-1]]], ["dom", "q", ["v"] + sparse], third, ["dom", "r", ["i", 0, 1]]]
        else:
            pool = [["dom", "q", ["v"] + sparse], ["dom", "r", ["v"] + dense], rnd.choice([["eq", "q", "r"], ["eq", "r", "q"]]), third]
        perms = list(itertools.permutations(pool))
        for pm in (perms if len(perms) <= 8 else rnd.sample(perms, 8)):
            cases.append(mk_case([], ["q", "r"], list(pm), perm_group=grp, mode="bag"))
        grp += 1
    # diseqfd / ltfd between a sparse and an interval domain that share only a bound of the interval, in every order (posted
    # before or after the domains): the constraint must not be dropped as "already true"
    for _ in range(n // 3):
        lo = rnd.randint(0, 3); hi = lo + rnd.randint(2, 3)
        sp = sorted({rnd.choice([lo - 2, lo - 1]), rnd.choice([hi, lo])} | ({hi + 2} if rnd.random() < 0.4 else set()))
        rel = rnd.choice([["rel", "diseqfd", "q", "r"], ["rel", "diseqfd", "r", "q"], ["rel", "ltfd", "q", "r"], ["rel", "ltefd", "r", "q"]])
        pool = [["dom", "q", ["v"] + sp], ["dom", "r", ["i", lo, hi]], rel]
        if rnd.random() < 0.4:
            pool.append(rnd.choice([["rel", "diseqfd", "r", lo + 1], ["neq", "q", lo - 1]]))
        perms = list(itertools.permutations(pool))
        for pm in (perms if len(perms) <= 6 else rnd.sample(perms, 8)):
            cases.append(mk_case([], ["q", "r"], list(pm), perm_group=grp, mode="bag"))
        grp += 1
    # distinctfd with elements bound by == in any order (larger value first included), the last element getting its domain (or
    # its value) before or after: whether the duplicate is seen must not depend on the order
    for _ in range(n // 3):
        a, b = sorted(rnd.sample(range(1, 7), 2), reverse=True)
        c = rnd.choice([a, a, b, 6])
        last = rnd.choice([["dom", "t", ["v", c, 6]], ["eq", "t", c], ["dom", "t", ["i", 1, 6]]])
        pool = [["rel", "distinctfd", ["list", "q", "r", "t"]], ["eq", "q", a], ["eq", "r", b], last]
        if rnd.random() < 0.5:
            pool.append(["dom", ["list", "q", "r"], ["i", 1, 6]])
        perms = list(itertools.permutations(pool))
        for pm in rnd.sample(perms, 10):
            cases.append(mk_case([], ["q", "r", "t"], list(pm), perm_group=grp, mode="bag"))
        grp += 1
    return pcheck.run_check("C04", tier, seed, cases, "bag", oracle_c04, cone=CONE_D, replay=replay,
        rule="groups of permutations (all for <= 3 goals, sampled beyond) of top-level conjunctions, with the goals of nested conjunctions, "
             "fresh blocks and conde clauses shuffled as well, over ==, !=, conde, fresh; and all posting orders of small finite-domain "
             "programs; answer multisets compared canonically, then by ground-instance sets; non-trivial = at least one answer",
        extra_cov=lambda cs, i, m: {"permutation_groups": len({c["perm_group"] for c in cs})})


# ----------------------------------------------------------------------------- C12
def oracle_c12(cases, impl, model):
    fails = []
    for k, c in enumerate(cases):
        tw = c.get("explicit_of")
        if tw is None:
            continue
        if any(impl[x].error or impl[x].end != "done" for x in (k, tw)):
            if impl[k].error and impl[k].error.startswith("panic"):
                fails.append({"case_index": k, "what": "for/everyg panicked: %s" % impl[k].error})
            continue
        if bag_of(seq_of(impl[k])) != bag_of(seq_of(impl[tw])):
            nq = len(c["qvars"])
            if inst_bag(impl[k], nq) != inst_bag(impl[tw], nq):
                fails.append({"case_index": k, "what": "for x in coll { body } differs from the explicit conjunction of the body over the collection",
                              "explicit_conjunction": cases[tw]["line"], "explicit_answers": impl[tw].raw[:1500]})
        if c.get("empty_coll") and len(impl[k].answers) != c.get("expect_count", 1):
            fails.append({"case_index": k, "what": "an empty collection must succeed exactly once"})
    return fails


def subst_goal(g, x, t):
    if isinstance(g, list):
        if g and g[0] == "fresh":
            return [g[0], g[1]] + [subst_goal(y, x, t) for y in g[2:]]
        return [subst_goal(y, x, t) for y in g]
    return t if g == x else g


def run_c12(tier, seed, replay=None):
    rnd = random.Random(seed)
    n = 250 if tier == "quick" else 2000
    cases = []
    for _ in range(n):
        g = P.Gen(rnd, allow=PURE + ["member"], depth=2)
        q = ["q", "r"]
        elems = [g.term(list(q), 1) for _ in range(rnd.randint(0, 4))]
        body = [g.goal(q + ["e"], 2) for _ in range(rnd.randint(1, 2))]
        pre = [g.goal(list(q), 1)] if rnd.random() < 0.4 else []
        k = len(cases)
        cases.append(mk_case([], q, pre + [["for", "e", ["list"] + elems if elems else "nil"] + body],
                             explicit_of=k + 1, empty_coll=(not elems and not pre)))
        expl = [subst_goal(b, "e", el) for el in elems for b in body]
        cases.append(mk_case([], q, pre + (expl if expl else ["true"])))
    for _ in range(n // 3):
        el = rnd.choice([1, "q", ["list", "q", 1], "r"])
        elems = [el] * rnd.randint(2, 3) + ([2] if rnd.random() < 0.5 else [])
        rnd.shuffle(elems)
        body = [["fresh", ["y"], ["lib", "member", "y", ["list", 7, 8]], rnd.choice([["neq", "y", "e"], "true", ["eq", "r", ["list", "y"]], ["neq", "r", "y"]])]]
        k = len(cases)
        cases.append(mk_case([], ["q", "r"], [["for", "e", ["list"] + elems] + body], explicit_of=k + 1))
        cases.append(mk_case([], ["q", "r"], [subst_goal(b, "e", x) for x in elems for b in body]))
    # bodies that can never succeed for some (or every) element - a literal false among the body goals: the loop has no answers,
    # like the explicit conjunction, wherever in the collection that happens
    for _ in range(n // 4):
        elems = [rnd.choice([1, 2, "q", "r", ["list", "q"]]) for _ in range(rnd.randint(1, 4))]
        body = rnd.choice([["false"], [["eq", "e", 1], "false"], ["false", ["eq", "e", 1]], [["conj", ["neq", "e", 3], "false"]],
                           [["eq", "q", "e"], ["conj", "false"]]])
        pre = [["eq", "r", 5]] if rnd.random() < 0.3 else []
        k = len(cases)
        cases.append(mk_case([], ["q", "r"], pre + [["for", "e", ["list"] + elems] + body], explicit_of=k + 1))
        cases.append(mk_case([], ["q", "r"], pre + [subst_goal(b, "e", x) for x in elems for b in body]))
    # collections with the empty list (and other lists) among their elements: every element gets its body, also those after a []
    for _ in range(n // 4):
        elems = [rnd.choice([1, "q", "nil", "nil", ["list", 2], "r", 7]) for _ in range(rnd.randint(2, 5))]
        if "nil" not in elems[:-1]:
            elems.insert(rnd.randint(0, len(elems) - 1), "nil")
        body = rnd.choice([[["neq", "e", 7]], [["lib", "member", "e", ["list", "nil", 1, ["list", 2]]]], [["neq", "e", "q"]],
                           [["cond", ["eq", "e", "nil"], ["eq", "e", 1], ["eq", "e", 7]]]])
        k = len(cases)
        cases.append(mk_case([], ["q", "r"], [["for", "e", ["list"] + elems] + body], explicit_of=k + 1))
        cases.append(mk_case([], ["q", "r"], [subst_goal(b, "e", x) for x in elems for b in body]))
    return pcheck.run_check("C12", tier, seed, cases, "exact", oracle_c12, cone=CONE_D, replay=replay,
        rule="for e in [t1..tn] { body } (n = 0..4; ground, partial and shared-variable elements; bodies of ==, !=, conde, fresh, member over e "
             "and the query variables) against the explicit conjunction of the instantiated bodies, as answer multisets (ground-instance sets "
             "when the forms differ); the empty collection must succeed once; each run step-exact against the model; non-trivial = at least one answer",
        extra_cov=lambda cs, i, m: {"empty_collections": sum(1 for c in cs if c.get("empty_coll"))})


# ----------------------------------------------------------------------------- C22
def oracle_c22(cases, impl, model):
    fails = []
    for k, (c, i, m) in enumerate(zip(cases, impl, model)):
        if i.error:
            continue
        for lin in P.parse_all(i.raw):
            if lin[0] != "probes":
                continue
            for lineage in lin[1:]:
                for pr in lineage[1:]:
                    # (probe tag n_with n_take n_store n_ext (ext...))
                    w, t, s = int(pr[2]), int(pr[3]), int(pr[4])
                    if w - t != s:
                        fails.append({"case_index": k, "what": "at probe %s: with_constraint calls %d - take_constraint calls %d != %d constraints in the store" % (pr[1], w, t, s)})
                        break
                    if len(pr) > 7 and int(pr[7]) != 0:
                        fails.append({"case_index": k, "what": "before probe %s process_extension was given %s binding(s) that are not entries of the substitution (not the variables that were bound)" % (pr[1], pr[7])})
                        break
        def norm(res):
            # absolute hook counts depend on the order in which the store is re-run (hash order in Rust):
            # compare the balance, the store size, the number of extensions and the last extension
            out = []
            for lin in P.parse_all(res.raw):
                if lin[0] == "probes":
                    for lineage in lin[1:]:
                        out.append(P.sx([[pr[1], int(pr[2]) - int(pr[3]), pr[4], pr[5], pr[6]] for pr in lineage[1:]]))
            return sorted(out)
        if not i.error and not m.error and i.end == "done" and m.end == "done" and norm(i) != norm(m):
            # same lineages expected (every lineage that reaches the end probe is an answer for non-FD programs)
            if not c.get("fd"):
                fails.append({"case_index": k, "what": "hook counts / extensions along a lineage differ from the model",
                              "impl_probes": i.probes[:4], "model_probes": m.probes[:4]})
    return fails


def run_c22(tier, seed, replay=None):
    rnd = random.Random(seed)
    n = 400 if tier == "quick" else 3000
    cases = []
    for _ in range(n):
        g, q = gen_pure(rnd, depth=2)
        goals = []
        for j in range(rnd.randint(2, 5)):
            goals.append(g.goal(list(q), 1))
            if rnd.random() < 0.6:
                goals.append(["probe", "p%d" % j])
        goals.append(["probe", "end"])
        cases.append(mk_case([], q, goals))
    for _ in range(n // 4):
        a, b = rnd.randint(1, 3), rnd.randint(1, 3)
        goals = [["neq", "q", a], ["probe", "a"], ["neq", ["list", "q", "r"], ["list", a, b]], ["probe", "b"],
                 ["neq", ["list", "q", "r"], ["list", a, b]], ["probe", "c"], ["neq", ["list", "q", "r", 1], ["list", a, b, 1]], ["probe", "d"],
                 rnd.choice([["eq", "r", b], ["eq", "q", a + 1], "true"]), ["probe", "end"]]
        cases.append(mk_case([], ["q", "r"], goals))
    for _ in range(n // 4):
        a, b = rnd.randint(1, 3), rnd.randint(1, 3)
        goals = [["neq", ["list", "q", "r"], ["list", a, b]], ["probe", "a"], ["neq", ["list", "q", "r", 1], ["list", a, b, 1]], ["probe", "b"],
                 rnd.choice([["neq", "q", a], ["neq", "r", b], ["fresh", ["z"], ["neq", ["list", "q", "z"], ["list", a, 5]], ["eq", "z", 5]]]), ["probe", "c"],
                 rnd.choice([["neq", "r", b], ["eq", "r", b + 1], "true"]), ["probe", "end"]]
        cases.append(mk_case([], ["q", "r"], goals))
    for _ in range(n // 4):
        lo, hi = rnd.randint(-1, 1), rnd.randint(2, 4)
        goals = [["dom", ["list", "q", "r"], ["i", lo, hi]], ["probe", "a"], ["rel", "distinctfd", ["list", "q", "r"]], ["probe", "b"],
                 rnd.choice([["rel", "ltefd", "q", "r"], ["rel", "plusfd", "q", 1, "r"], ["rel", "diseqfd", "q", "r"]]), ["probe", "c"],
                 rnd.choice([["eq", "q", lo], ["neq", "q", "r"], ["rel", "ltefd", "r", hi - 1]]), ["probe", "end"]]
        cases.append(mk_case([], ["q", "r"], goals, fd=True, mode="bag"))
    # the extension reported to the hook names the variables that were actually bound: an aliased variable on the RIGHT of a
    # value (the walked variable gets the binding, not the alias), also inside lists and compounds
    for _ in range(n // 4):
        k = rnd.randint(1, 5)
        alias = rnd.choice([["eq", "x", "y"], ["eq", "y", "x"], ["eq", ["list", "x", "z"], ["list", "y", "y"]]])
        val = rnd.choice([k, ["list", k, 2], ["comp", "Pair", k, "q"], ["list"]])
        late = rnd.choice([["eq", val, "x"], ["eq", ["list", 1, val], ["list", "z", "x"]], ["eq", ["comp", "Pair", val, 0], ["comp", "Pair", "x", "r"]],
                           ["eq", val, "y"], ["eq", ["list", val, val], ["list", "x", "y"]]])
        goals = [["fresh", ["x", "y", "z"], alias, ["probe", "a"], late, ["probe", "b"], ["eq", "q", ["list", "x", "y"]], ["probe", "end"]]]
        cases.append(mk_case([], ["q", "r"], goals))
    # arithmetic constraints over SPARSE domains, where the constraint's own narrowing binds one operand (a domain collapses to
    # one value) while the others stay open: the nested re-run must leave the hook counters balanced
    for _ in range(n // 3):
        rel = rnd.choice(["plusfd", "plusfd", "minusfd", "timesfd"])
        du = sorted(rnd.sample(range(1, 5), rnd.randint(2, 3)))
        dv = sorted(rnd.sample(range(1, 5), rnd.randint(2, 3)))
        dw = sorted(rnd.sample(range(0, 13), rnd.randint(1, 3)))
        goals = [["dom", "q", ["v"] + du], ["dom", "r", ["v"] + dv], ["dom", "t", ["v"] + dw], ["probe", "a"],
                 ["rel", rel, "q", "r", "t"], ["probe", "b"], rnd.choice([["neq", "q", du[0]], ["rel", "diseqfd", "q", "r"], "true"]), ["probe", "c"],
                 rnd.choice([["eq", "q", du[-1]], "true"]), ["probe", "end"]]
        cases.append(mk_case([], ["q", "r", "t"], goals, fd=True, mode="bag"))
    # ONE constraint goal value solved twice on the same path while its first constraint is still stored (goal values are
    # cheap clones): every posting stores a constraint of its own and fires with_constraint once
    for _ in range(n // 4):
        lo, hi = rnd.randint(-1, 1), rnd.randint(2, 4)
        g = rnd.choice([["rel", "diseqfd", "q", "r"], ["rel", "ltefd", "q", "r"], ["rel", "plusfd", "q", "r", "t"], ["neq", "q", "r"],
                        ["neq", ["list", "q", 1], ["list", "r", "t"]], ["rel", "diseqfd", "r", "q"]])
        times = rnd.randint(2, 3)
        goals = [["dom", ["list", "q", "r", "t"], ["i", lo, hi]], ["probe", "a"], ["reuse", times, g], ["probe", "b"],
                 rnd.choice([["eq", "q", lo], ["eq", "r", hi], "true"]), ["probe", "end"]]
        cases.append(mk_case([], ["q", "r", "t"], goals, fd=True, mode="bag"))
    return pcheck.run_check("C22", tier, seed, cases, "exact", oracle_c22, cone=["Proofs/HookProofs.vo", "Proofs/HookStream.vo", "Proofs/EngineProofs.vo"], replay=replay,
        rule="programs of ==, !=, conde, fresh and finite-domain constraints run with an instrumented User type; probe goals after the goals and "
             "at the end record, per lineage, the hook counters, the store size and the shape of the last extension; at every probe "
             "#with - #take must equal the store size; lineages are compared with the model's hook log; non-trivial = at least one answer",
        extra_cov=lambda cs, i, m: {"probe_lineages": sum(len(x.probes) for x in i)})
