from .surfc import run_c15 as run
