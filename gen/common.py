"""Shared machinery of the /verif checks: builds (Coq, extracted driver, Rust harness),
proof-obligation checking, differential runs, replay / evidence / known-finding protocol."""
import fcntl, hashlib, json, os, re, shutil, subprocess, sys, time

VERIF = os.path.dirname(os.path.dirname(os.path.abspath(__file__)))
REPO = os.environ.get("VERIF_REPO", "/repo")
COQ = os.path.join(VERIF, "coq")
CACHE = os.path.join(VERIF, ".cache")
EXTRACT = os.path.join(CACHE, "extract")
HTARGET = os.path.join(CACHE, "harness-target")
GUARD = "terohuttunen_proto_vulcan_verif"
NCPU = 16

ALLOWED_AXIOMS = set()   # the development is axiom-free; anything listed by Print Assumptions is an error

FORBIDDEN = re.compile(
    r"\b(Admitted|admit|Axiom|Axioms|Parameter|Parameters|Conjecture|Conjectures|Admit Obligations|"
    r"bypass_check|Unset Guard Checking|Unset Positivity Checking|Unset Universe Checking|"
    r"type-in-type|impredicative-set)\b")


def log(*a):
    print(*a, file=sys.stderr, flush=True)


class Lock:
    def __init__(self, name):
        os.makedirs(CACHE, exist_ok=True)
        self.path = os.path.join(CACHE, "lock." + name)

    def __enter__(self):
        self.f = open(self.path, "w")
        fcntl.flock(self.f, fcntl.LOCK_EX)
        return self

    def __exit__(self, *a):
        fcntl.flock(self.f, fcntl.LOCK_UN)
        self.f.close()


def sh(cmd, cwd=None, timeout=1800, env=None, check=False):
    e = dict(os.environ)
    e["CARGO_NET_OFFLINE"] = "true"
    if env:
        e.update(env)
    p = subprocess.run(cmd, cwd=cwd, shell=isinstance(cmd, str), capture_output=True, text=True,
                       timeout=timeout, env=e)
    out = "\n".join(l for l in (p.stdout + p.stderr).splitlines() if "conda.cli.condarc" not in l)
    if check and p.returncode != 0:
        raise RuntimeError("command failed: %s\n%s" % (cmd, out[-4000:]))
    return p.returncode, out


# ----------------------------------------------------------------------------- Coq
def coq_files():
    out = []
    for sub in ("Model", "Spec", "Proofs", "Gen", "Properties"):
        d = os.path.join(COQ, sub)
        if os.path.isdir(d):
            for f in sorted(os.listdir(d)):
                if f.endswith(".v"):
                    out.append(sub + "/" + f)
    return out


def scan_forbidden():
    """Reject Admitted/admit/Axiom/... anywhere in the development (comments are stripped first)."""
    bad = []
    for rel in coq_files() + ["Extract.v"]:
        p = os.path.join(COQ, rel)
        if not os.path.exists(p):
            continue
        src = open(p).read()
        src = strip_comments(src)
        for m in FORBIDDEN.finditer(src):
            bad.append("%s: %s" % (rel, m.group(0)))
        # Variable / Hypothesis outside a section
        depth = 0
        for line in src.splitlines():
            s = line.strip()
            if re.match(r"Section\s+\w+", s):
                depth += 1
            elif re.match(r"End\s+\w+", s) and depth > 0:
                depth -= 1
            elif depth == 0 and re.match(r"(Variable|Variables|Hypothesis|Hypotheses|Context)\b", s):
                bad.append("%s: top-level %s" % (rel, s.split()[0]))
    return bad


def strip_comments(src):
    out = []
    depth = 0
    i = 0
    n = len(src)
    while i < n:
        if src.startswith("(*", i):
            depth += 1
            i += 2
        elif src.startswith("*)", i) and depth > 0:
            depth -= 1
            i += 2
        else:
            if depth == 0:
                out.append(src[i])
            elif src[i] == "\n":
                out.append("\n")
            i += 1
    return "".join(out)


def write_coqproject():
    files = [f for f in coq_files() if not f.startswith("Properties/")]
    txt = "-Q . PV\n" + "\n".join(files) + "\n"
    p = os.path.join(COQ, "_CoqProject")
    old = open(p).read() if os.path.exists(p) else ""
    if old != txt:
        open(p, "w").write(txt)
        return True
    return False


def build_coq(targets=None, timeout=3000):
    """Full .vo build (never -vos) of the model and proof files through coq_makefile."""
    with Lock("coq"):
        changed = write_coqproject()
        mk = os.path.join(COQ, "Makefile")
        if changed or not os.path.exists(mk):
            sh(["coq_makefile", "-f", "_CoqProject", "-o", "Makefile"], cwd=COQ, check=True)
        tg = targets or []
        rc, out = sh(["timeout", str(timeout), "make", "-j%d" % NCPU] + tg, cwd=COQ, timeout=timeout + 60)
        return rc, out


def check_property_file(pid, timeout=900):
    """Compile Properties/<pid>.v (the statements; each closed by `exact lemma`) with coqc and
    collect, per theorem, what Print Assumptions reports."""
    rel = "Properties/%s.v" % pid
    src = open(os.path.join(COQ, rel)).read()
    thms = re.findall(r"^(?:Theorem|Corollary)\s+(\w+)", strip_comments(src), flags=re.M)
    outdir = os.path.join(CACHE, "props")
    os.makedirs(outdir, exist_ok=True)
    with Lock("coq"):
        rc, out = sh(["timeout", str(timeout), "coqc", "-Q", ".", "PV", "-o", os.path.join(outdir, pid + ".vo"), rel],
                     cwd=COQ, timeout=timeout + 30)
    res = {"file": rel, "theorems": thms, "ok": rc == 0, "log_tail": out[-3000:], "assumptions": {}}
    if rc != 0:
        return res
    # Print Assumptions output appears in file order
    printed = re.findall(r"^Print Assumptions\s+(\w+)\s*\.", strip_comments(src), flags=re.M)
    blocks = re.split(r"(?m)^(?=Closed under the global context|Axioms:)", out)
    blocks = [b for b in blocks if b.startswith("Closed under") or b.startswith("Axioms:")]
    for name, b in zip(printed, blocks):
        if b.startswith("Closed under"):
            res["assumptions"][name] = []
        else:
            ax = re.findall(r"^(\S+)\s*:", b[len("Axioms:"):], flags=re.M)
            res["assumptions"][name] = ax
    res["printed"] = printed
    res["n_blocks"] = len(blocks)
    return res


def proof_obligations(pid, cone_targets=None):
    """Step 1 of every check: forbidden-token scan, full build of the cone, property file, assumptions."""
    t0 = time.time()
    problems = []
    bad = scan_forbidden()
    if bad:
        problems.append("forbidden tokens: " + "; ".join(bad[:10]))
    try:
        from . import pv2sexp
        defs, terrs = pv2sexp.translate_all()
        pv2sexp.write_reldefs(defs, os.path.join(COQ, "Gen", "RelDefs.v"))
        if terrs:
            problems.append("translator errors: %s" % terrs)
    except Exception as ex:                     # the translator itself is part of the obligations
        problems.append("translator failed: %r" % ex)
    rc, out = build_coq(cone_targets)
    if rc != 0:
        problems.append("coq build failed: " + out[-1500:])
        return {"ok": False, "problems": problems, "obligations": 0, "discharged": 0, "theorems": [],
                "assumptions": {}, "wall_s": time.time() - t0}
    pr = check_property_file(pid)
    if not pr["ok"]:
        problems.append("Properties/%s.v does not compile: %s" % (pid, pr["log_tail"][-1500:]))
    thms = pr["theorems"]
    discharged = 0
    for t in thms:
        if not pr["ok"]:
            break
        if t not in pr["assumptions"]:
            problems.append("no Print Assumptions for %s" % t)
            continue
        extra = [a for a in pr["assumptions"][t] if a not in ALLOWED_AXIOMS]
        if extra:
            problems.append("%s depends on non-allow-listed axioms %s" % (t, extra))
        else:
            discharged += 1
    return {"ok": not problems, "problems": problems, "obligations": len(thms), "discharged": discharged,
            "theorems": thms, "assumptions": pr.get("assumptions", {}), "wall_s": time.time() - t0}


def coqchk(pid, timeout=3000):
    outdir = os.path.join(CACHE, "props")
    rc, out = sh(["timeout", str(timeout), "coqchk", "-silent", "-o", "-Q", COQ, "PV", "-Q", outdir, "PVP", "PVP." + pid],
                 cwd=COQ, timeout=timeout + 30)
    return rc, out


# ----------------------------------------------------------------------------- extracted driver
def build_driver():
    with Lock("driver"):
        os.makedirs(EXTRACT, exist_ok=True)
        build_coq()
        srcs = [os.path.join(COQ, "Extract.v"), os.path.join(VERIF, "ocaml", "driver.ml")]
        srcs += [os.path.join(COQ, f) for f in coq_files() if f.startswith("Model/") or f.startswith("Spec/") or f.startswith("Gen/")]
        h = hashlib.sha256()
        for s in srcs:
            h.update(open(s, "rb").read())
        stamp = os.path.join(EXTRACT, "stamp")
        exe = os.path.join(EXTRACT, "driver")
        if os.path.exists(exe) and os.path.exists(stamp) and open(stamp).read() == h.hexdigest():
            return exe
        sh(["timeout", "900", "coqc", "-Q", COQ, "PV", "-o", os.path.join(EXTRACT, "Extract.vo"),
            os.path.join(COQ, "Extract.v")], cwd=EXTRACT, check=True, timeout=1000)
        shutil.copy(os.path.join(VERIF, "ocaml", "driver.ml"), os.path.join(EXTRACT, "driver.ml"))
        sh("timeout 900 ocamlfind ocamlopt -w -a model.mli model.ml driver.ml -o driver",
           cwd=EXTRACT, check=True, timeout=1000)
        open(stamp, "w").write(h.hexdigest())
        return exe


# ----------------------------------------------------------------------------- Rust harness
def build_harness(profile="debug", timeout=1500):
    """Rebuild the harness against /repo's *current working tree* with the hooks enabled."""
    hdir = os.path.join(VERIF, "harness")
    with Lock("harness"):
        shutil.copy(os.path.join(REPO, "Cargo.lock"), os.path.join(hdir, "Cargo.lock"))
        cmd = ["timeout", str(timeout), "cargo", "build", "--offline", "--quiet"]
        if profile == "release":
            cmd.append("--release")
        rc, out = sh(cmd, cwd=hdir, timeout=timeout + 60,
                     env={"RUSTFLAGS": "--cfg %s" % GUARD, "CARGO_TARGET_DIR": HTARGET})
        if rc != 0:
            raise RuntimeError("harness build failed (%s):\n%s" % (profile, out[-6000:]))
        return os.path.join(HTARGET, profile, "pvh")


# ----------------------------------------------------------------------------- differential runs
def rundir(pid):
    d = os.path.join(CACHE, "run", "%s-%d" % (pid, os.getpid()))
    os.makedirs(d, exist_ok=True)
    return d


def _run_lines(exe, cases, workdir, tag, timeout, shards=NCPU, env=None, resume=6, stall=None):
    """Run `exe casefile` over the cases, sharded across cores; returns the list of result strings.
    A process that dies (stack overflow, abort) loses only the case it died on: the cases after it are run
    again in a new process, up to `resume` times."""
    res = _run_lines_once(exe, cases, workdir, tag, timeout, shards, env, stall)
    for attempt in range(resume):
        todo = [i for i, r in enumerate(res) if r == "notrun"]
        if not todo:
            break
        again = _run_lines_once(exe, [cases[i] for i in todo], workdir, "%s.r%d" % (tag, attempt), timeout, shards, env, stall)
        for i, r in zip(todo, again):
            res[i] = r
    return res


def _run_lines_once(exe, cases, workdir, tag, timeout, shards=NCPU, env=None, stall=None):
    n = len(cases)
    if n == 0:
        return []
    shards = max(1, min(shards, (n + 199) // 200))
    procs = []
    per = (n + shards - 1) // shards
    for k in range(shards):
        chunk = cases[k * per:(k + 1) * per]
        if not chunk:
            continue
        cf = os.path.join(workdir, "%s.%d.in" % (tag, k))
        of = os.path.join(workdir, "%s.%d.out" % (tag, k))
        with open(cf, "w") as f:
            f.write("\n".join(chunk) + "\n")
        e = dict(os.environ)
        if env:
            e.update(env)
        p = subprocess.Popen(["timeout", str(timeout), exe, cf], stdout=open(of, "w"), stderr=subprocess.DEVNULL, env=e)
        procs.append((p, of, len(chunk)))
    if stall:
        # watchdog: a process whose output has not grown for `stall` seconds is stuck inside one case
        # (a step that never returns); it is killed, the case is reported, the rest is re-run
        last = {id(p): (0, time.time()) for p, _, _ in procs}
        while any(p.poll() is None for p, _, _ in procs):
            time.sleep(0.5)
            now = time.time()
            for p, of, _ in procs:
                if p.poll() is not None:
                    continue
                try:
                    sz = os.path.getsize(of)
                except OSError:
                    sz = 0
                osz, ot = last[id(p)]
                if sz != osz:
                    last[id(p)] = (sz, now)
                elif now - ot > stall:
                    subprocess.call(["pkill", "-9", "-P", str(p.pid)])
                    p.kill()
    res = []
    for p, of, cnt in procs:
        rc = p.wait()
        lines = open(of).read().splitlines()
        got = {}
        for l in lines:
            i, _, r = l.partition("\t")
            if i.isdigit():
                got[int(i)] = r
        for i in range(cnt):
            if i in got:
                res.append(got[i])
            else:
                res.append("crash:rc=%d" % rc if i == len(got) else "notrun")
    return res


def run_model(pid, cases, timeout=600):
    exe = build_driver()
    return _run_lines(exe, cases, rundir(pid), "model", timeout, env={"OCAMLRUNPARAM": "l=8M"})


def run_impl(pid, cases, profile="debug", timeout=600, env=None):
    exe = build_harness(profile)
    return _run_lines(exe, cases, rundir(pid), "impl-" + profile, timeout, env=env, stall=int(os.environ.get("VERIF_STALL", "75")))


# ----------------------------------------------------------------------------- findings / replay / evidence
def load_known():
    p = os.path.join(VERIF, "known_findings.json")
    if not os.path.exists(p):
        return {"findings": [], "fixed": []}
    return json.load(open(p))


def write_replay(pid, obj):
    d = os.path.join(VERIF, "replays")
    os.makedirs(d, exist_ok=True)
    blob = json.dumps(obj, indent=1, sort_keys=True, default=str)
    h = hashlib.sha256(blob.encode()).hexdigest()[:12]
    p = os.path.join(d, "%s-%s.json" % (pid, h))
    open(p, "w").write(blob + "\n")
    return p


TRUSTED_BASE = [
    "Coq 8.16.1 kernel incl. vm_compute (no native_compute)",
    "axioms: none (Print Assumptions of every property theorem must say 'Closed under the global context')",
    "hand-written Gallina model of the Rust code (coq/Model), tied to /repo by the differential correspondence run",
    "extraction: ExtrOcamlBasic only (bool, option, unit, list, prod, sumbool, sumor mapped; Z/N/positive/nat inductive), OCaml 4.13.1, ocaml/driver.ml",
    "Rust harness /verif/harness (public API only) and the Python generators/differ in /verif/gen",
]


class Result:
    """Accumulates what one check run did; finish() prints VIOLATION / KNOWN-FINDING lines,
    writes the evidence file and returns the exit code."""

    def __init__(self, pid, tier, seed):
        self.pid, self.tier, self.seed = pid, tier, seed
        self.t0 = time.time()
        self.violations = []      # (replay_obj, no_input_found)
        self.known = []           # strings
        self.coverage = {}
        self.assumptions = []
        self.proof = None

    def violation(self, obj, no_input=False):
        self.violations.append((obj, no_input))

    def known_finding(self, text):
        if text not in self.known:
            self.known.append(text)

    def finish(self):
        pid = self.pid
        for k in self.known:
            print("KNOWN-FINDING: property=%s %s" % (pid, k))
        seen = set()
        nviol = 0
        for obj, no_input in self.violations[:5]:
            obj = dict(obj)
            obj.setdefault("property", pid)
            obj.setdefault("seed", self.seed)
            obj.setdefault("tier", self.tier)
            obj.setdefault("replay_cmd", "cd /verif && ./check %s --replay <this file>" % pid)
            path = write_replay(pid, obj)
            if path in seen:
                continue
            seen.add(path)
            nviol += 1
            print("VIOLATION property=%s replay=%s%s" % (pid, path, " no-failing-input-found" if no_input else ""))
        cov = dict(self.coverage)
        if self.proof is not None:
            cov.setdefault("obligations", self.proof["obligations"])
            cov.setdefault("discharged", self.proof["discharged"])
            cov.setdefault("theorems", self.proof["theorems"])
            cov.setdefault("assumptions_per_theorem", self.proof["assumptions"])
            if "coqchk" in self.proof:
                cov.setdefault("coqchk", self.proof["coqchk"])
        cov.setdefault("checker_cmd", "make -C /verif/coq (coq_makefile, full .vo) && coqc -Q . PV Properties/%s.v ; ./check %s" % (pid, pid))
        cov.setdefault("trusted_base", TRUSTED_BASE)
        ev = {
            "property_id": pid, "tier": self.tier, "seed": self.seed, "level": "proof",
            "coverage": cov, "assumptions": self.assumptions, "wall_s": round(time.time() - self.t0, 2),
            "violations": len(self.violations), "known_findings_reported": self.known,
        }
        os.makedirs(os.path.join(VERIF, "evidence"), exist_ok=True)
        with open(os.path.join(VERIF, "evidence", pid + ".json"), "w") as f:
            json.dump(ev, f, indent=1, default=str)
            f.write("\n")
        if self.violations:
            return 1
        print("OK property=%s tier=%s seed=%d wall=%.1fs" % (pid, self.tier, self.seed, time.time() - self.t0))
        return 0


def proof_step(res, pid, cone_targets=None):
    """Run the proof obligations; a broken obligation is reported (the caller still runs the
    correspondence to look for a concrete failing input)."""
    pr = proof_obligations(pid, cone_targets)
    if pr["ok"] and getattr(res, "tier", "quick") == "thorough":
        # independent re-check of the property file and everything it depends on; the axiom summary must be empty
        with Lock("coq"):
            rc0, _ = sh(["timeout", "900", "coqc", "-Q", ".", "PV", "Properties/%s.v" % pid], cwd=COQ, timeout=960)
            rc, out = sh(["timeout", "1500", "coqchk", "-silent", "-o", "-Q", ".", "PV", "PV.Properties.%s" % pid], cwd=COQ, timeout=1560)
        ok = rc0 == 0 and rc == 0 and "* Axioms: <none>" in out and "type-in-type: <none>" in out and "unsafe (co)fixpoints: <none>" in out \
            and "positivity is assumed: <none>" in out
        pr["coqchk"] = "Axioms: <none>" if ok else out[-1500:]
        if not ok:
            pr["ok"] = False
            pr["problems"].append("coqchk does not accept Properties/%s.v with an empty axiom summary: %s" % (pid, out[-800:]))
    res.proof = pr
    return pr
