"""C21 - LTerm equality, hashing and list operations are consistent.
Exhaustive over small terms (literals of every kind, variables, nested proper/improper lists,
compounds) through the real PartialEq, Hash (DefaultHasher and a HashMap round trip) and every
list API.  Oracle: the operations on the element sequence, in Python."""
import random
from . import common as C
from . import progs as P
from .c01 import terms_upto

PID = "C21"


def py(e):
    """s-expression term -> ('a',x) | ('v',n) | ('nil',) | ('cons',h,t) | ('comp',tag,args)"""
    if isinstance(e, list):
        if e[0] == "cons":
            return ("cons", py(e[1]), py(e[2]))
        if e[0] == "comp":
            return ("comp", e[1], tuple(py(x) for x in e[2:]))
        if e[0] == "list":
            t = ("nil",)
            for x in reversed(e[1:]):
                t = ("cons", py(x), t)
            return t
        if e[0] == "ilist":
            t = py(e[-1])
            for x in reversed(e[1:-1]):
                t = ("cons", py(x), t)
            return t
        if e[0] == "s":
            return ("a", '"s%s"' % e[1])
        if e[0] == "c":
            return ("a", "'%s" % e[1])
    if e == "nil":
        return ("nil",)
    if isinstance(e, str) and e.startswith("x"):
        return ("v", e)
    return ("a", str(e))


def elems(t):
    out = []
    while t[0] == "cons":
        out.append(t[1]); t = t[2]
    if t[0] != "nil":
        out.append(t)
    return out


def mk(l):
    t = ("nil",)
    for x in reversed(l):
        t = ("cons", x, t)
    return t


def is_list(t):
    return t[0] in ("nil", "cons")


def is_improper(t):
    if t[0] != "cons":
        return False
    while t[0] == "cons":
        t = t[2]
    return t[0] != "nil"


def display(t):
    if t[0] == "a":
        if t[1].startswith("'"):
            return "'%s'" % chr(int(t[1][1:]))
        return {"#t": "true", "#f": "false"}.get(t[1], t[1])
    if t[0] == "v":
        return t[1]
    if t[0] == "nil":
        return "[]"
    if t[0] == "comp":
        return None
    es = [display(x) for x in elems(t)]
    if any(x is None for x in es):
        return None
    if is_improper(t):
        return "[" + ", ".join(es[:-1]) + " | " + es[-1] + "]"
    return "[" + ", ".join(es) + "]"


def expected(case):
    op = case[0]
    if op in ("eq", "eqm"):
        a, b = py(case[1]), py(case[2])
        e = "true" if a == b else "false"
        return ("prefix", "%s sym=%s refl=true" % (e, e), a == b)
    show = lambda t: P.show(t)
    if op in ("from_vec", "from_array", "collect"):
        return ("exact", show(mk([py(x) for x in case[1]])))
    if op in ("improper", "improper_array"):
        xs = [py(x) for x in case[1]]
        if not xs:
            return ("panic",)
        t = xs[-1]
        for x in reversed(xs[:-1]):
            t = ("cons", x, t)
        return ("exact", show(t))
    t = py(case[1])
    if op in ("iter", "into_iter", "iter_mut"):
        return ("exact", "[" + " ".join(show(x) for x in elems(t)) + "]")
    if op == "iter_mut_set":
        w = py(case[2])
        if t[0] == "nil":
            return ("exact", "()")
        if t[0] != "cons":
            return ("exact", show(w))
        n = len(elems(t))
        if is_improper(t):
            r = w
            for _ in range(n - 1):
                r = ("cons", w, r)
            return ("exact", show(r))
        return ("exact", show(mk([w] * n)))
    if op == "extend":
        if not is_list(t) or is_improper(t):
            return ("panic",)
        return ("exact", show(mk(elems(t) + [py(x) for x in case[2]])))
    if op == "index":
        es = elems(t)
        return ("exact", show(es[case[2]])) if case[2] < len(es) else ("panic",)
    if op == "head":
        return ("exact", show(t[1]) if t[0] == "cons" else "none")
    if op == "tail":
        return ("exact", show(t[2]) if t[0] == "cons" else "none")
    if op == "is_list":
        return ("exact", str(is_list(t)).lower())
    if op == "is_empty":
        return ("exact", str(t[0] == "nil").lower())
    if op == "is_improper":
        return ("exact", str(is_improper(t)).lower())
    if op == "is_non_empty_list":
        return ("exact", str(t[0] == "cons").lower())
    if op == "contains":
        return ("exact", str(py(case[2]) in elems(t)).lower())
    if op == "display":
        d = display(t)
        return ("exact", d) if d is not None else None
    raise ValueError(op)


def sxcase(case):
    parts = ["lterm", case[0]]
    for a in case[1:]:
        parts.append(a)
    return P.sx(parts)


def run(tier, seed, replay=None):
    res = C.Result(PID, tier, seed)
    pr = C.proof_step(res, PID, ["Proofs/LTermProofs.vo"])
    rnd = random.Random(seed)
    atoms = [1, 2, "#t", ["s", 1], ["c", 97], "nil", "x0", "x1"]
    ts = terms_upto(3 if tier == "quick" else 4, atoms)
    cases = []
    sample = ts if len(ts) < 400 else rnd.sample(ts, 400)
    for t in ts:
        for op in ("iter", "into_iter", "iter_mut", "head", "tail", "is_list", "is_empty", "is_improper", "is_non_empty_list", "display"):
            cases.append((op, t))
    for t in sample:
        for i in range(0, 4):
            cases.append(("index", t, i))
        cases.append(("iter_mut_set", t, rnd.choice(atoms)))
        cases.append(("extend", t, [rnd.choice(atoms) for _ in range(rnd.randint(0, 2))]))
        cases.append(("contains", t, rnd.choice(atoms + sample[:20])))
    pairs = [(a, b) for a in sample for b in sample]
    if len(pairs) > (15000 if tier == "quick" else 120000):
        pairs = rnd.sample(pairs, 15000 if tier == "quick" else 120000)
    pairs += [(a, a) for a in sample]
    # near-miss pairs: the same element sequence as a proper and as an improper list, one element
    # changed / dropped / swapped, nesting, a compound with the same fields
    def rlist(d):
        es = [rnd.choice(atoms) if d == 0 or rnd.random() < 0.7 else rlist(d - 1) for _ in range(rnd.randint(1, 4))]
        return es
    def as_term(es, improper):
        es = [as_term(e, rnd.random() < 0.3) if isinstance(e, list) and (not e or not isinstance(e[0], str) or e[0] not in ("s", "c")) else e for e in es]
        if improper and len(es) >= 2:
            return ["ilist"] + es
        return ["list"] + es
    for _ in range(250 if tier == "quick" else 3000):
        es = rlist(2)
        a = as_term(es, False)
        vs = [as_term(es, True), as_term(es[:-1], False), as_term(es[:-1], True), as_term(list(reversed(es)), False),
              as_term(es + [rnd.choice(atoms)], True), as_term([es], False), as_term(es[:1] + [rnd.choice(atoms)] + es[2:], False),
              ["cons", a, "nil"], ["ilist"] + [a, a], a]
        if len(es) == 2:
            vs.append(["comp", "Pair", a[1], a[2]])
        for b in vs:
            pairs.append((a, b))
            pairs.append((b, rnd.choice(vs)))
    # compounds with a compound-typed field (chains with unnamed and with named fields): equal labels, different tails
    def chain(tag, labels, end):
        t = end
        for l in reversed(labels):
            t = ["comp", tag, l, t]
        return t
    for _ in range(150 if tier == "quick" else 1500):
        tag = rnd.choice(["TLink", "NLink"])
        labs = [rnd.choice([1, 2, "x0"]) for _ in range(rnd.randint(1, 3))]
        end = rnd.choice(["nil", "x1"])
        a = chain(tag, labs, end)
        vs = [chain(tag, labs[:1], end), chain(tag, labs, "nil" if end != "nil" else "x1"), chain(tag, labs[:-1] + [3], end),
              chain(tag, labs + [1], end), chain("NLink" if tag == "TLink" else "TLink", labs, end), a]
        for b in vs:
            pairs.append((a, b))
    for a, b in pairs:
        cases.append(("eq", a, b))
    # the same relation after the first term was walked (not changed) through head_mut / tail_mut / iter_mut on a shared handle
    for a, b in (pairs if len(pairs) < 4000 else rnd.sample(pairs, 4000)) + [(a, a) for a in sample]:
        cases.append(("eqm", a, b))
    for _ in range(600 if tier == "quick" else 5000):
        l = [rnd.choice(sample[:60] + atoms) for _ in range(rnd.randint(0, 4))]
        cases.append((rnd.choice(["from_vec", "from_array", "collect", "improper", "improper_array"]), l))
    lines = [sxcase(c) for c in cases]
    exe = C.build_driver()
    model = C._run_lines(exe, lines, C.rundir(PID), "model", 900, env={"OCAMLRUNPARAM": "l=64M"})
    impl = C.run_impl(PID, lines)
    fails, disagree, ops, nontriv = [], 0, {}, set()
    for k, (c, m, i) in enumerate(zip(cases, model, impl)):
        ops[c[0]] = ops.get(c[0], 0) + 1
        mi = "panic" if i.startswith("panic") else i
        if c[0] in ("eq", "eqm") and i.startswith("false"):
            # unequal terms may or may not collide: the hash of unequal terms is not part of the correspondence
            import re as _re
            mi = _re.sub(r"hash_equal=\w+", "", mi)
            m = _re.sub(r"hash_equal=\w+", "", m)
        if c[0] != "display" and m != mi:
            disagree += 1
        exp = expected(c)
        if exp is None:
            continue
        bad = None
        if exp[0] == "panic":
            # panics outside the property's "list" wording (extend on a non-list / improper list, index out of range,
            # improper_from_vec of nothing) are documented behaviour, not violations
            if not i.startswith("panic"):
                bad = "expected a panic, got %s" % i
        elif exp[0] == "prefix":
            if not i.startswith(exp[1]):
                bad = "== is not the structural equivalence: %s" % i
            elif exp[2] and ("hash_equal=true" not in i or "map_lookup=true" not in i):
                bad = "equal terms hash differently / are not found in a HashMap: %s" % i
        elif i != exp[1]:
            bad = "expected %s" % exp[1]
        if bad:
            fails.append((k, bad))
        if not i.startswith("panic") and i not in ("[]", "none", "false"):
            nontriv.add(lines[k])
    for k, bad in fails[:3]:
        res.violation({"case": list(cases[k]), "case_line": lines[k], "implementation": impl[k], "model": model[k], "explanation": bad})
    if not pr["ok"]:
        res.violation({"broken_obligation": pr["problems"], "theorems": pr["theorems"]}, no_input=not fails)
    if disagree and not fails:
        k = next(k for k in range(len(cases)) if cases[k][0] not in ("display", "eq", "eqm") and model[k] != ("panic" if impl[k].startswith("panic") else impl[k]))
        res.violation({"theorem_or_correspondence": "correspondence Model/LTermOps.v vs src/lterm.rs", "case_line": lines[k],
                       "implementation": impl[k], "model": model[k], "n_disagreements": disagree}, no_input=True)
    res.coverage.update({
        "evaluations": len(cases), "distinct_nontrivial": len(nontriv),
        "rule": "all terms of size <= 3 (4 thorough) over {1, 2, true, \"s1\", 'a', [], x0, x1, cons, Pair/2, Wrap/1}: every unary list API on each; "
                "index 0..3, iter_mut assignment, extend, contains on a sample; == with symmetry, reflexivity, hash equality (DefaultHasher) and "
                "HashMap lookup on sampled pairs plus the diagonal; the constructors on random vectors; non-trivial = a non-empty, non-panic result",
        "samples": [lines[0], lines[len(lines) // 2], lines[-1]], "op_distribution": ops,
        "model_impl_disagreements": disagree, "oracle_failures": len(fails), "exhaustive": False,
    })
    res.assumptions = ["Display of compound terms uses the derived Debug of the compound and is not compared",
                       "panics of extend/index/improper_from_vec outside the list domain are recorded, not violations"]
    return res.finish()
