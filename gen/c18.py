"""C18 - FiniteDomain operations implement set semantics.
Exhaustive small scope: every pair of domains over a window of values in both representations,
From<Vec> with unsorted/duplicated vectors, all threshold predicates, extreme isize bounds
(debug and release builds).  Observable: the element sequence of the result (iteration order
included), booleans, min/max.  Oracle: Python set semantics, independent of the Coq model."""
import itertools, random
from . import common as C

PID = "C18"
MIN, MAX = -2**63, 2**63 - 1


def fd_str(d):
    k = d[0]
    if k == "i":
        return "(i %d %d)" % (d[1], d[2])
    if k == "v":
        # half of the vectors go through the slice constructor (From<&[isize]>, the one infd uses), half through From<Vec>
        tag = "s" if (sum(d[1]) + len(d[1])) % 2 == 0 else "v"
        return "(%s %s)" % (tag, " ".join(str(x) for x in d[1]))
    raise ValueError(d)


def fd_set(d):
    """Oracle denotation; intervals are only ever enumerated when narrow."""
    if d[0] == "i":
        return list(range(d[1], d[2] + 1))
    return sorted(set(d[1]))


def pred_fn(p):
    k, c = p
    return {"gt": lambda x: c < x, "ge": lambda x: c <= x, "lt": lambda x: x < c, "le": lambda x: x <= c,
            "eq": lambda x: x == c, "never": lambda x: False, "always": lambda x: True}[k]


def pred_str(p):
    return "(%s %d)" % p if p[0] not in ("never", "always") else "(%s)" % p[0]


def show(l):
    return "none" if not l else "[" + " ".join(str(x) for x in l) + "]"


def oracle(case):
    """Expected result string by plain set semantics."""
    op = case[0]
    if op in ("iter",):
        return "[" + " ".join(map(str, fd_set(case[1]))) + "]"
    if op == "iter_rev" or op == "into_rev":
        return "[" + " ".join(map(str, reversed(fd_set(case[1])))) + "]"
    if op == "into_iter":
        return "[" + " ".join(map(str, fd_set(case[1]))) + "]"
    if op == "into_alt":
        l, out, front = list(fd_set(case[1])), [], True
        while l:
            out.append(l.pop(0) if front else l.pop())
            front = not front
        return "[" + " ".join(map(str, out)) + "]"
    if op == "min":
        return str(min(fd_set(case[1])))
    if op == "max":
        return str(max(fd_set(case[1])))
    if op == "is_singleton":
        return "true" if len(fd_set(case[1])) == 1 else "false"
    if op == "singleton_value":
        s = fd_set(case[1])
        return str(s[0]) if len(s) == 1 else "none"
    if op == "contains":
        return "true" if case[2] in fd_set(case[1]) else "false"
    if op == "copy_before":
        f = pred_fn(case[1]); s = fd_set(case[2]); out = []
        for x in s:
            if f(x):
                break
            out.append(x)
        return show(out)
    if op == "drop_before":
        f = pred_fn(case[1]); s = fd_set(case[2])
        i = 0
        while i < len(s) and not f(s[i]):
            i += 1
        return show(s[i:])
    a, b = fd_set(case[1]), fd_set(case[2])
    if op == "intersect":
        return show([x for x in a if x in b])
    if op == "diff":
        return show([x for x in a if x not in b])
    if op == "is_disjoint":
        return "true" if not (set(a) & set(b)) else "false"
    if op == "eq":
        return "true" if a == b else "false"
    raise ValueError(op)


def case_str(case):
    op = case[0]
    if op in ("copy_before", "drop_before"):
        return "(fd %s %s %s)" % (op, pred_str(case[1]), fd_str(case[2]))
    if op == "contains":
        return "(fd contains %s %d)" % (fd_str(case[1]), case[2])
    return "(fd %s %s)" % (op, " ".join(fd_str(d) for d in case[1:]))


def domains(window, rnd, nvec):
    W = list(window)
    ds = []
    for lo in W:
        for hi in W:
            if lo <= hi:
                ds.append(("i", lo, hi))
    for r in range(1, len(W) + 1):
        for sub in itertools.combinations(W, r):
            ds.append(("v", tuple(sub)))
    # unsorted / duplicated vectors
    for _ in range(nvec):
        k = rnd.randint(1, len(W) + 2)
        ds.append(("v", tuple(rnd.choice(W) for _ in range(k))))
    return ds


def extreme_domains():
    out = []
    for base in (MIN, MAX - 3):
        for lo in range(base, base + 4):
            for hi in range(lo, base + 4):
                out.append(("i", lo, hi))
        out.append(("v", (base + 3, base, base + 1)))
        out.append(("v", (base + 2, base + 2)))
    return out


def gen_cases(tier, seed):
    rnd = random.Random(seed)
    w = 3 if tier == "quick" else 4
    window = range(-w, w + 1)
    ds = domains(window, rnd, 40 if tier == "quick" else 200)
    cases = []
    preds = [(k, c) for k in ("gt", "ge", "lt", "le", "eq") for c in range(-w - 1, w + 2)] + [("never", 0), ("always", 0)]
    for d in ds:
        for op in ("iter", "iter_rev", "into_iter", "into_rev", "into_alt", "min", "max", "is_singleton", "singleton_value"):
            cases.append((op, d))
        for u in range(-w - 1, w + 2):
            cases.append(("contains", d, u))
        for p in preds:
            cases.append(("copy_before", p, d))
            cases.append(("drop_before", p, d))
    pairs = [(a, b) for a in ds for b in ds]
    if tier == "quick" and len(pairs) > 30000:
        pairs = rnd.sample(pairs, 30000)
    for a, b in pairs:
        for op in ("intersect", "diff", "is_disjoint", "eq"):
            cases.append((op, a, b))
    ext = extreme_domains()
    extc = []
    for d in ext:
        for op in ("iter", "iter_rev", "into_iter", "into_rev", "into_alt", "min", "max", "singleton_value"):
            extc.append((op, d))
        base = d[1] if d[0] == "i" else min(d[1])
        for c in (base - 1, base, base + 1, base + 2):
            if MIN <= c <= MAX:
                extc.append(("contains", d, c))
                for k in ("gt", "ge"):
                    extc.append(("copy_before", (k, c), d))
                    extc.append(("drop_before", (k, c), d))
        extc.append(("copy_before", ("always", 0), d))
    for a in ext:
        for b in ext:
            if (a[1] if a[0] == "i" else min(a[1])) // 2**62 == (b[1] if b[0] == "i" else min(b[1])) // 2**62:
                for op in ("intersect", "diff", "is_disjoint", "eq"):
                    extc.append((op, a, b))
    # wide intervals: only operations that do not enumerate
    wide = [("i", MIN, MAX), ("i", MIN, 0), ("i", -1, MAX), ("i", 0, MAX)]
    widec = []
    for d in wide:
        for op in ("min", "max", "is_singleton", "singleton_value"):
            widec.append((op, d))
        widec.append(("contains", d, 0))
        for e in wide:
            widec.append(("intersect", d, e))
    return cases, extc, widec


def oracle_wide(case):
    op = case[0]
    d = case[1]
    if op == "min":
        return str(d[1])
    if op == "max":
        return str(d[2])
    if op == "is_singleton":
        return "true" if d[1] == d[2] else "false"
    if op == "singleton_value":
        return str(d[1]) if d[1] == d[2] else "none"
    if op == "contains":
        return "true" if d[1] <= case[2] <= d[2] else "false"
    if op == "intersect":
        e = case[2]
        lo, hi = max(d[1], e[1]), min(d[2], e[2])
        return "none" if lo > hi else ("{%d..%d}" % (lo, hi) if hi - lo > 100 else show(list(range(lo, hi + 1))))
    return None


KNOWN_CLASSES = {
    # id -> predicate on (case, impl_result, expected)
}


def classify_known(case, known_ids):
    """Return the id of the listed known finding this failing case belongs to, if any."""
    op = case[0]
    if "fd_wide_interval_is_singleton_overflow" in known_ids and op in ("is_singleton", "singleton_value") \
            and case[1][0] == "i" and not (MIN <= case[1][2] - case[1][1] <= MAX):
        return "fd_wide_interval_is_singleton_overflow"
    if "fd_copy_before_saturates_at_isize_min" in known_ids and op == "copy_before" and case[2][0] == "i" \
            and case[2][1] == MIN:
        return "fd_copy_before_saturates_at_isize_min"
    return None


def run(tier, seed, replay=None):
    res = C.Result(PID, tier, seed)
    pr = C.proof_step(res, PID, ["Proofs/FDProofs.vo"])
    known = C.load_known()
    known_ids = {k["id"] for k in known["findings"] if k["property"] == PID}
    if replay:
        import json
        obj = json.load(open(replay))
        cases = [tuple(json.loads(json.dumps(obj["case"]), object_hook=None))] if "case" in obj else []
        cases = [_detuple(c) for c in cases]
        extc, widec = [], []
    else:
        cases, extc, widec = gen_cases(tier, seed)
    allc = [(c, "debug") for c in cases] + [(c, "debug") for c in extc] + [(c, "release") for c in extc] \
        + [(c, "debug") for c in widec] + [(c, "release") for c in widec]
    strs = [case_str(c) for c, _ in allc]
    model = C.run_model(PID, strs)
    impl = [None] * len(allc)
    for prof in ("debug", "release"):
        idx = [i for i, (_, p) in enumerate(allc) if p == prof]
        out = C.run_impl(PID, [strs[i] for i in idx], profile=prof)
        for i, o in zip(idx, out):
            impl[i] = o
    nwide0 = len(cases) + 2 * len(extc)
    disagreements = 0
    failing = []
    distinct = set()
    panics = 0
    for i, (case, prof) in enumerate(allc):
        exp = oracle_wide(case) if i >= nwide0 else oracle(case)
        if isinstance(exp, tuple) or exp is None:
            exp = model[i]          # wide interval: model is the reference (proved), not enumerable
        got = impl[i]
        if got.startswith("panic"):
            panics += 1
        nontrivial = exp not in ("none", "[]") and not (case[0] in ("iter", "min", "max"))
        if nontrivial:
            distinct.add(strs[i])
        if model[i] != got:
            disagreements += 1
        if got != exp:
            failing.append((case, prof, got, exp, model[i]))
    reported = set()
    for case, prof, got, exp, mod in failing:
        kid = classify_known(case, known_ids)
        if kid:
            res.known_finding("%s: e.g. %s -> %s (set semantics: %s)" % (kid, case_str(case), got, exp)) if kid not in reported else None
            reported.add(kid)
            continue
        key = (case[0], got.split(":")[0] if got.startswith("panic") else "wrong")
        if key in reported:
            continue
        reported.add(key)
        res.violation({"case": case, "case_line": case_str(case), "profile": prof, "implementation": got,
                       "set_semantics_oracle": exp, "model": mod,
                       "explanation": "FiniteDomain::%s disagrees with the operation on the denoted integer set" % case[0]})
    if not pr["ok"]:
        res.violation({"broken_obligation": pr["problems"], "theorems": pr["theorems"],
                       "explanation": "proof obligations of C18 no longer check"}, no_input=not failing)
    if disagreements and not failing:
        res.violation({"correspondence": "model and implementation disagree on %d cases but every implementation result matches set semantics" % disagreements,
                       "theorem_or_correspondence": "C18 correspondence Model/FD.v vs src/state/fd.rs"}, no_input=True)
    ops = {}
    for c, _ in allc:
        ops[c[0]] = ops.get(c[0], 0) + 1
    res.coverage.update({
        "evaluations": len(allc), "distinct_nontrivial": len(distinct),
        "rule": "exhaustive: all intervals and all non-empty subsets of the window [-w,w] (w=3 quick, 4 thorough) plus random unsorted/duplicated vectors; unary ops on each, binary ops on pairs (all pairs thorough; 30000 sampled pairs quick), all thresholds c in [-w-1,w+1] for gt/ge/lt/le/eq; narrow domains at isize::MIN / isize::MAX and full-width intervals in debug and release. non-trivial = result is a non-empty set / a boolean / singleton value (not plain iter/min/max); distinct = distinct case line",
        "samples": [strs[0], strs[len(strs) // 3], strs[len(cases) - 1], strs[len(cases) + 3] if extc else strs[-1], strs[-1]],
        "exhaustive": tier == "thorough",
        "op_distribution": ops, "impl_panics": panics, "model_impl_disagreements": disagreements,
        "oracle_failures": len(failing), "profiles": ["debug", "release"],
    })
    res.assumptions = ["wf_fd (lo<=hi / non-empty strictly increasing) is the theorems' guard; copy_before additionally needs isize::MIN < lo",
                       "interval arithmetic of is_singleton (hi-lo) is outside the model when it leaves isize; observed by the harness in debug+release"]
    return res.finish()


def _detuple(c):
    if isinstance(c, list):
        return tuple(_detuple(x) for x in c)
    return c
