from .fdc import run_c19 as run
