"""C11 - project sees the current value of projected variables in every branch.
Programs where 1..n states reach a project goal (member / conde / loop before it) whose body uses
the value non-relationally (the `sq` goal: succeeds only if its argument *is* a number when the
body is built).  Oracle: the reference semantics (project = substitute the walked value per state)."""
import random
from . import progs as P
from . import pcheck
from .searchc import mk_case, seq_of, bag_of, reference, show_ref

CONE = ["Proofs/EngineProofs.vo", "Gen/RelDefs.vo"]


def oracle(cases, impl, model):
    _, libdefs, _ = P.libdefs_path()
    fails = []
    for k, (c, i) in enumerate(zip(cases, impl)):
        if i.error:
            if i.error.startswith("panic"):
                fails.append({"case_index": k, "what": "reaching a project goal panicked: %s" % i.error})
            continue
        ref = reference(c, libdefs)
        if ref is None or i.end != "done":
            continue
        c["ref_applied"] = True
        if bag_of(seq_of(i)) != bag_of(ref):
            fails.append({"case_index": k, "what": "project body did not see the value of the arriving state", "reference": show_ref(ref)})
    return fails


def run(tier, seed, replay=None):
    rnd = random.Random(seed)
    n = 300 if tier == "quick" else 2500
    cases = []
    for _ in range(n):
        vals = [rnd.randint(-3, 4) for _ in range(rnd.randint(1, 4))]
        arrive = rnd.choice([
            ["lib", "member", "x", ["list"] + vals],
            ["cond"] + [["eq", "x", v] for v in vals],
            ["conj", ["lib", "member", "y", ["list"] + vals], ["eq", "x", "y"]],
            ["eq", "x", vals[0]],
            ["cond", ["eq", "x", vals[0]], "true", ["eq", "x", ["list", vals[0]]]],
        ])
        inner = rnd.choice([
            [["sq", "x", "q"]],
            [["sq", "x", "z"], ["eq", "q", ["list", "x", "z"]]],
            [["cond", ["sq", "x", "q"], ["eq", "q", "x"]]],
            [["lib", "member", "w", ["list", 1, 2]], ["sq", "x", "z"], ["eq", "q", ["list", "w", "z"]]],
            [["fresh", ["u"], ["eq", "u", "x"], ["project", ["u"], ["sq", "u", "q"]]]],
        ])
        body = [["fresh", ["x", "y", "z", "w"], arrive, ["project", ["x"]] + inner] +
                ([["neq", "q", 4]] if rnd.random() < 0.3 else [])]
        if rnd.random() < 0.15:
            body = [["dfs"] + body]
        cases.append(mk_case([], ["q"], body, maxans=30, budget=3000))
    # the projected variable is bound to a list / compound *containing* variables before the search
    # branches; the branches bind the inner variables: the walked value must be the full walk* of the
    # arriving state (the shallow walk of x is the same term in every branch)
    for _ in range(n // 2):
        vals = [rnd.randint(-3, 4) for _ in range(rnd.randint(2, 4))]
        shape = rnd.choice([["list", "a", "b"], ["ilist", "a", "b"], ["comp", "Pair", "a", "b"], ["list", ["list", "a"], "b"],
                            ["comp", "Wrap", ["list", "a", 7]], ["list", "a"]])
        branch = rnd.choice([
            ["lib", "member", "a", ["list"] + vals],
            ["cond"] + [["eq", "a", v] for v in vals],
            ["cond"] + [["conj", ["eq", "a", v], ["eq", "b", v + 1]] for v in vals],
            ["conj", ["lib", "member", "b", ["list"] + vals[:2]], ["lib", "member", "a", ["list"] + vals]],
        ])
        inner = rnd.choice([
            [["sq", "x", "q"]],
            [["sq", "x", "z"], ["eq", "q", ["list", "a", "z"]]],
            [["sq", "x", "z"], ["eq", "q", ["list", "x", "z"]]],
        ])
        pre = [["eq", "x", shape], branch] if rnd.random() < 0.8 else [branch, ["eq", "x", shape]]
        body = [["fresh", ["x", "a", "b", "z"]] + pre + [["project", ["x"]] + inner]]
        cases.append(mk_case([], ["q"], body, maxans=30, budget=4000))
    # the projected NAME holds a structured term (a relation parameter that was passed a list / compound with variables in it),
    # not a variable: the body still sees the full walk* of that term in the arriving state
    for _ in range(n // 3):
        vals = [rnd.randint(-3, 4) for _ in range(rnd.randint(2, 3))]
        shape = rnd.choice([["list", "a", "b"], ["ilist", "a", "b"], ["comp", "Pair", "a", 2], ["list", "a"], ["list", ["list", "a"], 3]])
        style = rnd.choice(["closure", "direct"])
        d = ["def", "sqo", ["params", "l", "out"], style, ["project", ["l"], ["sq", "l", "out"]]]
        d2 = ["def", "sho", ["params", "l", "out"], style, ["project", ["l"], ["sq", "l", "z9"], ["eq", "out", ["list", "l", "z9"]]]]
        d2[4] = ["fresh", ["z9"], d2[4]]
        branch = rnd.choice([["lib", "member", "a", ["list"] + vals], ["cond"] + [["conj", ["eq", "a", v], ["eq", "b", v + 1]] for v in vals]])
        call = rnd.choice([["call", "sqo", shape, "q"], ["call", "sho", shape, "q"]])
        body = [["fresh", ["a", "b"], branch, call]] if rnd.random() < 0.8 else [["fresh", ["a", "b"], call, branch]]
        cases.append(mk_case([d, d2], ["q"], body, maxans=30, budget=4000))
    return pcheck.run_check("C11", tier, seed, cases, "exact", oracle, cone=CONE, replay=replay,
        rule="a project goal reached by 1-4 states (through member, conde, a conjunction, or with the variable unbound / bound to a list) "
             "whose body squares the projected value non-relationally, directly, after other goals, inside a disjunction, after a multi-answer "
             "goal (bodies resumed later) or through a nested project; answers against the reference semantics and step-exactly against the "
             "model; any panic is a violation; non-trivial = at least one answer",
        extra_cov=lambda cs, i, m: {"reference_applied": sum(1 for c in cs if c.get("ref_applied")),
                                    "multi_arrival": sum(1 for x in i if len(x.answers) > 1)})
