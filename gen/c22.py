from .treec import run_c22 as run
