"""An independent reference semantics (the oracle of several checks): a plain list-monad,
depth-first, left-to-right interpreter of the pure fragment of the program language
(eq / neq / conj / fresh / cond / conda / condu / onceo / dfs / closure / call / lib / match / for),
written directly from the documented meaning of the constructs -- no streams, no scheduling.

Terms: ('v', id) | ('a', atom) | ('nil',) | ('cons', h, t) | ('comp', tag, (args...)).
A state is (subst dict, list of disequalities), a disequality a list of (var-term, term) pairs."""
import itertools
from . import progs as P


class Diverged(Exception):
    pass


class Unsupported(Exception):
    pass


class Ref:
    def __init__(self, defs=(), libdefs=(), work=200000, depth=400):
        self.defs = {}
        for d in defs:            # ['def', name, ['params', ...], mode, body]
            self.defs[("rel", d[1])] = (d[2][1:], d[4])
        for n, ps, c, b in libdefs:
            self.defs[("lib", n)] = (ps, b)
        self.counter = itertools.count(1000)
        self.work = work
        self.maxdepth = depth

    # ------------------------------------------------------------ terms
    def term(self, e, env):
        if isinstance(e, (list, tuple)):
            k = e[0]
            if k == "s":
                return ("a", '"s%s"' % e[1])
            if k == "c":
                return ("a", "'%s" % e[1])
            if k == "cons":
                return ("cons", self.term(e[1], env), self.term(e[2], env))
            if k == "list":
                t = ("nil",)
                for x in reversed(e[1:]):
                    t = ("cons", self.term(x, env), t)
                return t
            if k == "ilist":
                t = self.term(e[-1], env)
                for x in reversed(e[1:-1]):
                    t = ("cons", self.term(x, env), t)
                return t
            if k == "comp":
                return ("comp", e[1], tuple(self.term(x, env) for x in e[2:]))
            raise Unsupported("term %r" % (e,))
        if isinstance(e, int):
            return ("a", str(e))
        if e == "nil":
            return ("nil",)
        if e == "_":
            return ("v", next(self.counter))
        if e in ("#t", "#f"):
            return ("a", e)
        try:
            int(e)
            return ("a", str(e))
        except ValueError:
            pass
        if e not in env:
            raise Unsupported("unbound %s" % e)
        return env[e]

    def walk(self, t, s):
        while t[0] == "v" and t[1] in s:
            t = s[t[1]]
        return t

    def occurs(self, x, t, s):
        t = self.walk(t, s)
        if t[0] == "v":
            return t[1] == x
        if t[0] == "cons":
            return self.occurs(x, t[1], s) or self.occurs(x, t[2], s)
        if t[0] == "comp":
            return any(self.occurs(x, c, s) for c in t[2])
        return False

    def unify(self, a, b, s):
        """-> extended copy of s or None"""
        a, b = self.walk(a, s), self.walk(b, s)
        if a[0] == "v" and b[0] == "v" and a[1] == b[1]:
            return s
        if a[0] == "v":
            if self.occurs(a[1], b, s):
                return None
            s = dict(s); s[a[1]] = b
            return s
        if b[0] == "v":
            if self.occurs(b[1], a, s):
                return None
            s = dict(s); s[b[1]] = a
            return s
        if a[0] != b[0]:
            return None
        if a[0] == "a":
            return s if a[1] == b[1] else None
        if a[0] == "nil":
            return s
        if a[0] == "cons":
            s = self.unify(a[1], b[1], s)
            return None if s is None else self.unify(a[2], b[2], s)
        if a[0] == "comp":
            if a[1] != b[1] or len(a[2]) != len(b[2]):
                return None
            for x, y in zip(a[2], b[2]):
                s = self.unify(x, y, s)
                if s is None:
                    return None
            return s
        return None

    def walk_star(self, t, s):
        t = self.walk(t, s)
        if t[0] == "cons":
            return ("cons", self.walk_star(t[1], s), self.walk_star(t[2], s))
        if t[0] == "comp":
            return ("comp", t[1], tuple(self.walk_star(c, s) for c in t[2]))
        return t

    # ------------------------------------------------------------ states
    def check_diseqs(self, s, ds):
        """re-check every disequality under s; None if one is violated, else the simplified list"""
        out = []
        for d in ds:
            s2 = s
            for k, v in d:
                s2 = self.unify(k, v, s2)
                if s2 is None:
                    break
            if s2 is None:
                continue                      # can never be equal: satisfied for good
            new = [(("v", x), s2[x]) for x in s2 if x not in s]
            if not new:
                return None                   # already equal: violated
            out.append(new)
        return out

    def do_eq(self, a, b, st):
        s, ds = st
        s2 = self.unify(a, b, s)
        if s2 is None:
            return []
        ds2 = self.check_diseqs(s2, ds)
        return [] if ds2 is None else [(s2, ds2)]

    def do_neq(self, a, b, st):
        s, ds = st
        r = self.check_diseqs(s, ds + [[(a, b)]])
        return [] if r is None else [(s, r)]

    # ------------------------------------------------------------ goals
    def solve(self, g, env, st, depth=0):
        self.work -= 1
        if self.work <= 0 or depth > self.maxdepth:
            raise Diverged()
        if g == "true":
            return [st]
        if g == "false":
            return []
        k = g[0]
        if k == "eq":
            return self.do_eq(self.term(g[1], env), self.term(g[2], env), st)
        if k == "neq":
            return self.do_neq(self.term(g[1], env), self.term(g[2], env), st)
        if k in ("conj", "closure"):
            return self.conj(g[1:], env, st, depth)
        if k == "fresh":
            env2 = dict(env)
            for n in g[1]:
                env2[n] = ("v", next(self.counter))
            return self.conj(g[2:], env2, st, depth)
        if k == "condv":
            g = ["cond"] + list(g[1:]); k = "cond"
        if k == "mapsum":
            return self.conj([["cond"] + [["eq", l[0], v] for v in l[1:]] for l in g[1:]], env, st, depth)
        if k == "reuse":
            return self.conj([g[2]] * int(g[1]), env, st, depth)
        if k == "disj":
            g = ["cond"] + list(g[2:]); k = "cond"
        if k in ("cond", "dfs"):
            out = []
            for c in g[1:]:
                out += self.clause(c, env, st, depth) if k == "cond" else []
            if k == "dfs":
                out = self.conj([x for c in g[1:] for x in self.clause_goals(c)], env, st, depth)
            return out
        if k in ("conda", "condu"):
            for c in g[1:]:
                gs = self.clause_goals(c)
                if not gs:
                    continue
                heads = self.solve(gs[0], env, st, depth + 1)
                if heads:
                    if k == "condu":
                        heads = heads[:1]
                    out = []
                    for h in heads:
                        out += self.conj(gs[1:], env, h, depth)
                    return out
            return []
        if k == "onceo":
            r = self.conj([x for c in g[1:] for x in self.clause_goals(c)], env, st, depth)
            return r[:1]
        if k in ("call", "lib"):
            key = ("rel" if k == "call" else "lib", g[1])
            if key not in self.defs:
                raise Unsupported("relation %s" % (key,))
            ps, body = self.defs[key]
            args = [self.term(a, env) for a in g[2:]]
            return self.solve(body, dict(zip(ps, args)), st, depth + 1)
        if k in ("match", "matche", "matcha", "matchu"):
            clauses = []
            for arm in g[2:]:
                for p in arm[1][1:]:
                    clauses.append((p, arm[2:]))
            results = []
            for p, body in clauses:
                t = self.term(g[1], env)
                env2 = dict(env)
                for n in self.pat_names(p):
                    env2[n] = ("v", next(self.counter))
                pt = self.term(p, env2)
                heads = self.do_eq(t, pt, st)
                if k in ("match", "matche"):
                    for h in heads:
                        results += self.conj(body, env2, h, depth)
                elif heads:
                    if k == "matchu":
                        heads = heads[:1]
                    for h in heads:
                        results += self.conj(body, env2, h, depth)
                    return results
            return results
        if k == "for":
            coll = self.term(g[2], env)
            elems = []
            while coll[0] == "cons":
                elems.append(coll[1]); coll = coll[2]
            if coll[0] != "nil":
                elems.append(coll)
            states = [st]
            for e in elems:
                env2 = dict(env); env2[g[1]] = e
                nxt = []
                for s in states:
                    nxt += self.conj([x for c in g[3:] for x in self.clause_goals(c)], env2, s, depth)
                states = nxt
            return states
        if k == "probe":
            return [st]
        if k == "project":
            env2 = dict(env)
            for n in g[1]:
                env2[n] = self.walk_star(env[n], st[0])
            return self.conj([x for x in g[2:]], env2, st, depth)
        if k == "sq":
            u = self.term(g[1], env)
            # the first number found going down list heads / first compound fields, without the substitution
            while u[0] in ("cons", "comp"):
                if u[0] == "cons":
                    u = u[1]
                elif u[2]:
                    u = u[2][0]
                else:
                    break
            if u[0] == "a" and u[1].lstrip("-").isdigit():
                return self.do_eq(("a", str(int(u[1]) * int(u[1]))), self.term(g[2], env), st)
            return []
        raise Unsupported("goal %r" % (k,))

    def pat_names(self, p, out=None):
        out = [] if out is None else out
        if isinstance(p, (list, tuple)):
            if p[0] in ("s", "c"):
                return out
            for x in (p[2:] if p[0] == "comp" else p[1:]):
                self.pat_names(x, out)
            return out
        if isinstance(p, int) or p in ("nil", "_", "#t", "#f"):
            return out
        try:
            int(p)
        except ValueError:
            if p not in out:
                out.append(p)
        return out

    def clause_goals(self, c):
        return list(c[1:]) if isinstance(c, (list, tuple)) and c and c[0] == "conj" else [c]

    def clause(self, c, env, st, depth):
        return self.conj(self.clause_goals(c), env, st, depth)

    def conj(self, gs, env, st, depth):
        states = [st]
        for g in gs:
            nxt = []
            for s in states:
                nxt += self.solve(g, env, s, depth + 1)
            states = nxt
            if not states:
                break
        return states

    # ------------------------------------------------------------ answers
    def run(self, qvars, body):
        """-> list of canonical answers (terms tuple, frozenset of solved-form constraints), Prolog order"""
        env = {q: ("v", i) for i, q in enumerate(qvars)}
        out = []
        for s, ds in self.conj(list(body), env, ({}, []), 0):
            terms = [self.walk_star(("v", i), s) for i in range(len(qvars))]
            order = []
            for t in terms:
                self.vars_of(t, order)
            m = {v: "_%d" % i for i, v in enumerate(order)}
            cons = set()
            keep = []
            for d in ds:
                d2 = [(self.walk_star(k, s), self.walk_star(v, s)) for k, v in d]
                vs = []
                for k, v in d2:
                    self.vars_of(k, vs); self.vars_of(v, vs)
                if all(v in m for v in vs):
                    keep.append([(self.ren(k, m), self.ren(v, m)) for k, v in d2])
            forms = [P.solved_form(d) for d in keep]
            forms = [f for f in forms if f is not None]
            # drop constraints implied by another one (f implies g when g's equations imply f's: f subset-solved of g)
            minimal = []
            for f in set(forms):
                implied = any(g != f and self.implies(g, f) for g in set(forms))
                if not implied:
                    minimal.append(f)
            out.append((tuple(P.show(self.ren(t, m)) for t in terms), frozenset(minimal)))
        return out

    def implies(self, g, f):
        """disequality g (solved form) implies disequality f: every solution of f's equations solves g's"""
        s = {}
        for k, v in f:
            if not P._unify(("v", k), P.to_term(P.parse_all(v)[0]), s):
                return False
        n = len(s)
        for k, v in g:
            if not P._unify(("v", k), P.to_term(P.parse_all(v)[0]), s):
                return False
        return len(s) == n

    def vars_of(self, t, acc):
        if t[0] == "v":
            if t[1] not in acc:
                acc.append(t[1])
        elif t[0] == "cons":
            self.vars_of(t[1], acc); self.vars_of(t[2], acc)
        elif t[0] == "comp":
            for c in t[2]:
                self.vars_of(c, acc)
        return acc

    def ren(self, t, m):
        if t[0] == "v":
            return ("v", m.get(t[1], "?%s" % t[1]))
        if t[0] == "cons":
            return ("cons", self.ren(t[1], m), self.ren(t[2], m))
        if t[0] == "comp":
            return ("comp", t[1], tuple(self.ren(c, m) for c in t[2]))
        return t
