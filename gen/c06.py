from .searchc import run_c06 as run
