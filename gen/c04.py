from .treec import run_c04 as run
