from .treec import run_c12 as run
