from .searchc import run_c07 as run
