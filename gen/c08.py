from .searchc import run_c08 as run
