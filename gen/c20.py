"""C20 - compound terms unify, constrain, reify and label structurally.
Programs mixing four #[compound] types (tuple-like Pair/2, Wrap/1, Tri/3 and named Named{a,b}),
lists and literals in eq / diseq / FD goals.  Oracles: the reference semantics (which treats a
compound as a tagged tuple of fields), the per-answer structural checks of C03, and brute force
for finite-domain variables inside compounds."""
import random
from . import progs as P
from . import pcheck
from .searchc import mk_case, seq_of, bag_of, reference, show_ref
from .treec import oracle_c03
from .fdc import oracle_fd

CONE = ["Proofs/UnifyProofs.vo", "Proofs/ReifyProofs.vo", "Proofs/EngineProofs.vo"]
COMPS = [("Pair", 2), ("Wrap", 1), ("Tri", 3), ("Named", 2)]


def cterm(rnd, scope, d):
    k = rnd.random()
    if d <= 0 or k < 0.35:
        return rnd.choice(scope + [1, 2, 3, "nil", "#t"]) if scope else rnd.choice([1, 2, 3])
    if k < 0.8:
        tag, ar = rnd.choice(COMPS)
        return ["comp", tag] + [cterm(rnd, scope, d - 1) for _ in range(ar)]
    return ["list"] + [cterm(rnd, scope, d - 1) for _ in range(rnd.randint(1, 2))]


def oracle(cases, impl, model):
    _, libdefs, _ = P.libdefs_path()
    fails = []
    for k, (c, i) in enumerate(zip(cases, impl)):
        if i.error:
            if i.error.startswith("panic"):
                fails.append({"case_index": k, "what": "panic: %s" % i.error})
            continue
        if "spec" in c:
            continue
        ref = reference(c, libdefs)
        if ref is None or i.end != "done":
            continue
        c["ref_applied"] = True
        if bag_of(seq_of(i)) != bag_of(ref):
            fails.append({"case_index": k, "what": "answers differ from the structural reference semantics of compounds", "reference": show_ref(ref)})
    fails += oracle_c03(cases, impl, model)
    fails += oracle_fd("C17")(cases, impl, model)
    return fails


def run(tier, seed, replay=None):
    rnd = random.Random(seed)
    n = 400 if tier == "quick" else 3500
    cases = []
    for _ in range(n):
        q = ["q", "r"][:rnd.randint(1, 2)]
        hidden = ["x", "y"]
        goals = []
        for _ in range(rnd.randint(1, 4)):
            op = rnd.choice(["eq", "eq", "neq"])
            goals.append([op, cterm(rnd, q + hidden, 2), cterm(rnd, q + hidden, 2)])
        if rnd.random() < 0.3:
            goals.append(["cond", ["eq", rnd.choice(q), cterm(rnd, q + hidden, 2)], ["neq", rnd.choice(q), cterm(rnd, hidden, 1)]])
        cases.append(mk_case([], q, [["fresh", hidden] + goals]))
    # same type / different type / arity / compound against list and literal / occurs through fields
    for _ in range(n // 4):
        t1, a1 = rnd.choice(COMPS)
        t2, a2 = rnd.choice(COMPS)
        u = ["comp", t1] + [rnd.choice(["q", "r", 1, 2]) for _ in range(a1)]
        v = rnd.choice([["comp", t2] + [rnd.choice(["q", "r", 1, 2, ["comp", "Wrap", "q"]]) for _ in range(a2)],
                        ["list"] + [1] * a1, 1, "nil", "q", ["comp", "Wrap", u]])
        cases.append(mk_case([], ["q", "r"], [[rnd.choice(["eq", "neq"]), u, v]]))
    # Option-typed fields (Some(..) and None are one compound type with one or no child) and the pair tuple
    def optw(some):
        c = rnd.choice(["q", "r", 3, "x"])
        if some:
            return ["comp", "OptW", ["comp", "Opt", ["comp", "Pair", rnd.choice(["q", "x", 1]), rnd.choice(["r", "y", 2])]], c]
        return ["comp", "OptW", ["comp", "Opt"], c]
    # term fields before AND after the Option-typed field, variables left unbound, a disequality on one of them: the answer is
    # fully reified (one name per variable, across the Option field) and carries the constraint
    for _ in range(n // 4):
        opt = ["comp", "Opt", ["comp", "Pair", rnd.choice(["y", "x", 1]), rnd.choice(["z", 2])]] if rnd.random() < 0.7 else ["comp", "Opt"]
        w = ["comp", "WOpt", rnd.choice(["x", "x", "q", ["list", "x"]]), opt, rnd.choice(["z", "x", 3])]
        goals = [["eq", "q", w] if w[2] != "q" else ["eq", "r", w]]
        if rnd.random() < 0.7:
            goals.append(["neq", rnd.choice(["x", "z"]), rnd.randint(4, 6)])
        if rnd.random() < 0.3:
            goals.append(["eq", rnd.choice(["y", "z"]), rnd.randint(7, 8)])
        rnd.shuffle(goals)
        cases.append(mk_case([], ["q", "r"], [["fresh", ["x", "y", "z"]] + goals]))
    for _ in range(n // 4):
        u, v = optw(rnd.random() < 0.6), optw(rnd.random() < 0.5)
        goals = [[rnd.choice(["eq", "eq", "neq"]), u, v]]
        if rnd.random() < 0.5:
            goals.append([rnd.choice(["eq", "neq"]), rnd.choice(["q", "r", "x"]), rnd.choice([1, 2, 3, "y"])])
        if rnd.random() < 0.3:
            goals.insert(0, ["eq", "y", optw(rnd.random() < 0.5)])
            goals.append(["eq", "y", u])
        rnd.shuffle(goals)
        cases.append(mk_case([], ["q", "r"], [["fresh", ["x", "y"]] + goals]))
    for _ in range(n // 6):
        tup = lambda: ["comp", "Tup", rnd.choice(["q", 1, "x", ["list", "r"]]), rnd.choice(["r", 2, "y"])]
        other = rnd.choice([tup(), tup(), ["comp", "Pair", "q", "r"], ["list", "q", "r"], "x", 1])
        cases.append(mk_case([], ["q", "r"], [["fresh", ["x", "y"], [rnd.choice(["eq", "neq"]), tup(), other],
                                              [rnd.choice(["eq", "neq"]), rnd.choice(["q", "x"]), rnd.choice([1, "r", tup()])]]]))
    # deep resolution through EVERY field position: each field of the outer compound is a hidden variable bound (before or
    # after) to a structured term that holds another hidden variable, itself bound elsewhere - the answer must be fully
    # resolved whichever field the chain hangs from, for every compound type including the pair tuple
    for _ in range(n // 3):
        tag, ar = rnd.choice(COMPS + [("Tup", 2), ("Tup", 2)])
        fields = ["f%d" % j for j in range(ar)]
        inner = ["g%d" % j for j in range(ar)]
        goals = [["eq", "q", ["comp", tag] + fields]]
        for f, g in zip(fields, inner):
            k = rnd.random()
            if k < 0.3:
                goals.append(["eq", f, ["list", g, 1]])
            elif k < 0.5:
                goals.append(["eq", f, ["comp", "Tup", rnd.choice([0, g]), g]])
            elif k < 0.7:
                t2, a2 = rnd.choice(COMPS)
                goals.append(["eq", f, ["comp", t2] + [g] * a2])
            elif k < 0.85:
                goals.append(["eq", f, g])
            else:
                goals.append(["eq", f, rnd.randint(1, 3)])
            goals.append(["eq", g, rnd.choice([5, 6, ["list", 7], "r"])])
        rnd.shuffle(goals)
        cases.append(mk_case([], ["q", "r"], [["fresh", fields + inner] + goals]))
    # finite-domain variables inside compounds
    for _ in range(n // 4):
        lo, hi = rnd.randint(-2, 0), rnd.randint(1, 2)
        dom = list(range(lo, hi + 1))
        con = rnd.choice([["ltfd", "q", "r"], ["plusfd", "q", "r", rnd.randint(lo, hi)], ["diseqfd", "q", "r"], ["timesfd", "q", "r", 0]])
        shape = rnd.choice([["comp", "Pair", "q", "r"], ["comp", "Named", ["comp", "Wrap", "q"], ["list", "r"]], ["comp", "Tri", "q", ["comp", "Wrap", "r"], "nil"]])
        body = [["fresh", ["q", "r"], ["dom", ["list", "q", "r"], ["i", lo, hi]], ["rel"] + con, ["eq", "t", shape]]]
        cases.append(mk_case([], ["t"], body, spec=(["q", "r"], {"q": dom, "r": dom}, [con]), mode="bag_terms", budget=20000, maxans=200))
    return pcheck.run_check("C20", tier, seed, cases, "exact", oracle, cone=CONE, replay=replay,
        rule="programs of ==/!= (and conde) over terms mixing Pair/2, Wrap/1, Tri/3, Named{a,b}, lists and literals with query and hidden "
             "variables; systematic same-type / different-type / arity / compound-vs-list / occurs-through-fields pairs; finite-domain "
             "variables inside (nested) compounds against brute force; answers against the structural reference semantics, reification "
             "checks per answer, step-exact against the model; non-trivial = at least one answer",
        assumptions=["the tagged-list twin of the property text is replaced by the reference semantics, which treats a compound as a tag "
                     "plus its fields; Rust tuples and Option are not exercised (the harness defines four #[compound] structs)"],
        extra_cov=lambda cs, i, m: {"reference_applied": sum(1 for c in cs if c.get("ref_applied"))})
