from .surfc import run_c14 as run
