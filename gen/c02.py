from .treec import run_c02 as run
