from .searchc import run_c09 as run
