"""Programs as s-expressions: printing, random generation, running on implementation and model,
parsing and canonicalising results."""
import os, random, re
from . import common as C
from . import pv2sexp

# ----------------------------------------------------------------------------- s-expressions

def sx(e):
    if isinstance(e, (list, tuple)):
        return "(" + " ".join(sx(x) for x in e) + ")"
    return str(e)


def prog_line(defs, qvars, body, maxans=20, budget=2000):
    return sx(["prog", ["defs"] + list(defs), ["query", list(qvars)] + list(body), ["max", maxans], ["budget", budget]])


# ----------------------------------------------------------------------------- result parsing
TOK = re.compile(r'\s*(\(|\)|\{|\}|"[^"]*"|[^\s(){}]+)')


def parse_all(s):
    toks = TOK.findall(s)
    pos = 0

    def go():
        nonlocal pos
        t = toks[pos]
        pos += 1
        if t == "(":
            out = []
            while toks[pos] != ")":
                out.append(go())
            pos += 1
            return out
        if t == "{":
            out = ["{}"]
            while toks[pos] != "}":
                out.append(go())
            pos += 1
            return out
        return t
    res = []
    while pos < len(toks):
        res.append(go())
    return res


def to_term(e):
    """printed term -> nested tuples: ('v', name) | ('a', atom) | ('nil',) | ('cons', h, t) | ('comp', tag, args)"""
    if isinstance(e, list):
        if e and e[0] == "{}":
            return ("comp", e[1], tuple(to_term(x) for x in e[2:]))
        items = e
        if len(items) >= 3 and items[-2] == ".":
            tail = to_term(items[-1])
            items = items[:-2]
        else:
            tail = ("nil",)
        for x in reversed(items):
            tail = ("cons", to_term(x), tail)
        return tail
    if e[0] in "_?":
        return ("v", e)
    return ("a", e)


def term_vars(t, acc):
    if t[0] == "v":
        if t[1] not in acc:
            acc.append(t[1])
    elif t[0] == "cons":
        term_vars(t[1], acc); term_vars(t[2], acc)
    elif t[0] == "comp":
        for x in t[2]:
            term_vars(x, acc)
    return acc


def rename(t, m):
    if t[0] == "v":
        return ("v", m.get(t[1], t[1]))
    if t[0] == "cons":
        return ("cons", rename(t[1], m), rename(t[2], m))
    if t[0] == "comp":
        return ("comp", t[1], tuple(rename(x, m) for x in t[2]))
    return t


def show(t):
    if t[0] == "v" or t[0] == "a":
        return t[1]
    if t[0] == "nil":
        return "()"
    if t[0] == "comp":
        return "{" + " ".join([t[1]] + [show(x) for x in t[2]]) + "}"
    items = []
    while t[0] == "cons":
        items.append(show(t[1]))
        t = t[2]
    if t[0] != "nil":
        items += [".", show(t)]
    return "(" + " ".join(items) + ")"


# --- canonical form of a disequality constraint (a set of equations): its solved form
def _walk(t, s):
    while t[0] == "v" and t[1] in s:
        t = s[t[1]]
    return t


def _unify(a, b, s):
    a, b = _walk(a, s), _walk(b, s)
    if a == b:
        return True
    if a[0] == "v" and b[0] == "v":
        # orient towards the smaller canonical name
        if a[1] < b[1]:
            a, b = b, a
        s[a[1]] = b
        return True
    if a[0] == "v":
        s[a[1]] = b
        return True
    if b[0] == "v":
        s[b[1]] = a
        return True
    if a[0] == "cons" and b[0] == "cons":
        return _unify(a[1], b[1], s) and _unify(a[2], b[2], s)
    if a[0] == "comp" and b[0] == "comp" and a[1] == b[1] and len(a[2]) == len(b[2]):
        return all(_unify(x, y, s) for x, y in zip(a[2], b[2]))
    return False


def _walk_star(t, s, seen=frozenset()):
    # a reported constraint may be cyclic on a defective tree (x != [x, 1]): cut the cycle instead of recursing for ever
    while t[0] == "v" and t[1] in s:
        if t[1] in seen:
            return ("a", "<cyclic>")
        seen = seen | {t[1]}
        t = s[t[1]]
    if t[0] == "cons":
        return ("cons", _walk_star(t[1], s, seen), _walk_star(t[2], s, seen))
    if t[0] == "comp":
        return ("comp", t[1], tuple(_walk_star(x, s, seen) for x in t[2]))
    return t


def solved_form(pairs):
    """pairs: list of (var term, term) -> canonical tuple of (var, term) strings, or None when unsatisfiable"""
    s = {}
    for k, v in pairs:
        if not _unify(k, v, s):
            return None
    return tuple(sorted((k, show(_walk_star(("v", k), s))) for k in s))


def canon_answer(ans):
    """ans = [terms, constraints, relevant, steps] (parsed) -> (terms tuple, frozenset of constraints, relevant tuple, steps)"""
    terms = [to_term(x) for x in ans[0]]
    cons = [[(to_term(p[0]), to_term(p[1])) for p in c] for c in ans[1] if c != ["other"]]
    rel = [[[(to_term(p[0]), to_term(p[1])) for p in c] for c in r if c != ["other"]] for r in ans[2]]
    order = []
    for t in terms:
        term_vars(t, order)
    m = {v: "_%d" % i for i, v in enumerate(order)}
    # variables that only occur in constraints: named after the (sorted) constraint text with known names applied
    rest = []
    for c in sorted(cons, key=lambda c: sorted((show(rename(k, m)), show(rename(v, m))) for k, v in c)):
        for k, v in c:
            term_vars(k, rest); term_vars(v, rest)
    for v in rest:
        if v not in m:
            m[v] = "~%d" % (len(m))
    terms = tuple(show(rename(t, m)) for t in terms)

    def cform(c):
        return solved_form([(rename(k, m), rename(v, m)) for k, v in c])
    cset = frozenset(cform(c) for c in cons)
    relv = tuple(frozenset(cform(c) for c in r) for r in rel)
    return (terms, cset, relv, int(ans[3]))


class Result:
    def __init__(self, line):
        self.raw = line
        self.answers = []
        self.end = None
        self.probes = []
        self.error = None
        if line.startswith("panic:") or line.startswith("error:") or line.startswith("crash") or line == "notrun":
            self.error = line
            self.end = line.split(":")[0]
            return
        for item in parse_all(line):
            if item[0] == "ans":
                self.answers.append(canon_answer(item[1:]))
            elif item[0] == "end":
                self.end = " ".join(item[1:])
                # a step that does not return: the model runs out of fuel, the harness hits its inner cap
                if self.end in ("oof", "innercap"):
                    self.end = "diverged"
            elif item[0] == "probes":
                self.probes = [sx(x) for x in item[1:]]

    def seq(self, with_constraints=True):
        return [(a[0], a[1]) if with_constraints else a[0] for a in self.answers]

    def bag(self, with_constraints=True):
        return sorted((a[0], tuple(sorted(map(str, a[1])))) if with_constraints else (a[0],) for a in self.answers)

    def steps(self):
        return [a[3] for a in self.answers]


# ----------------------------------------------------------------------------- running
def libdefs_path():
    """(Re)generate the library-relation definitions from /repo's current source."""
    defs, errors = pv2sexp.translate_all()
    p = os.path.join(C.CACHE, "libdefs.sexp")
    os.makedirs(C.CACHE, exist_ok=True)
    txt = "\n".join(pv2sexp.defs_sexp_lines(defs)) + "\n"
    if not os.path.exists(p) or open(p).read() != txt:
        open(p, "w").write(txt)
    return p, defs, errors


def run_both(pid, lines, profile="debug", timeout=900):
    p, _, errors = libdefs_path()
    exe = C.build_driver()
    model = C._run_lines(exe, lines, C.rundir(pid), "model", timeout, env={"OCAMLRUNPARAM": "l=64M", "PV_LIBDEFS": p})
    impl = C.run_impl(pid, lines, profile=profile, timeout=timeout)
    return [Result(m) for m in model], [Result(i) for i in impl], errors


# ----------------------------------------------------------------------------- generation
class Gen:
    """Random structured programs.  Every random choice comes from self.r."""

    def __init__(self, rnd, nvars=3, consts=(1, 2, 3), allow=("eq", "neq", "cond", "fresh", "conj"),
                 depth=3, comps=False):
        self.r = rnd
        self.consts = list(consts)
        self.allow = list(allow)
        self.depth = depth
        self.comps = comps
        self.counter = 0

    def fresh_name(self):
        self.counter += 1
        return "v%d" % self.counter

    def term(self, scope, d=2):
        r = self.r
        k = r.random()
        if d <= 0 or k < 0.55:
            c = r.random()
            if scope and c < 0.55:
                return r.choice(scope)
            if c < 0.9:
                return r.choice(self.consts)
            if c < 0.95:
                return "nil"
            return r.choice(["#t", ["s", 1], ["c", 97]])
        if k < 0.8:
            n = r.randint(1, 3)
            return ["list"] + [self.term(scope, d - 1) for _ in range(n)]
        if k < 0.9:
            n = r.randint(2, 3)
            return ["ilist"] + [self.term(scope, d - 1) for _ in range(n)]
        if self.comps:
            tag, ar = r.choice([("Pair", 2), ("Wrap", 1), ("Tri", 3), ("Named", 2)])
            return ["comp", tag] + [self.term(scope, d - 1) for _ in range(ar)]
        return ["cons", self.term(scope, d - 1), self.term(scope, d - 1)]

    BFS_ONLY = ("conda", "condu", "onceo", "loop", "never", "always", "anyo_member")

    def goal(self, scope, d=None, dfs=False):
        r = self.r
        d = self.depth if d is None else d
        kinds = [k for k in self.allow if (d > 0 or k in ("eq", "neq", "true", "false")) and not (dfs and k in self.BFS_ONLY)]
        k = r.choice(kinds)
        if k == "eq":
            return ["eq", self.term(scope), self.term(scope)]
        if k == "neq":
            return ["neq", self.term(scope), self.term(scope)]
        if k == "true" or k == "false":
            return k
        if k == "conj":
            return ["conj"] + [self.goal(scope, d - 1, dfs) for _ in range(r.randint(1, 3))]
        if k == "fresh":
            names = [self.fresh_name() for _ in range(r.randint(1, 2))]
            return ["fresh", names] + [self.goal(scope + names, d - 1, dfs) for _ in range(r.randint(1, 3))]
        if k in ("cond", "conda", "condu", "onceo", "loop", "dfs"):
            n = r.randint(1, 3)
            inner_dfs = dfs or k == "dfs"
            clauses = []
            for _ in range(n):
                m = r.randint(1, 2)
                gs = [self.goal(scope, d - 1, inner_dfs) for _ in range(m)]
                clauses.append(gs[0] if m == 1 and r.random() < 0.6 else ["conj"] + gs)
            return [k] + clauses
        if k == "member":
            return ["lib", "member", self.term(scope, 1), ["list"] + [self.term(scope, 1) for _ in range(r.randint(1, 3))]]
        if k == "append":
            return ["lib", "append", self.term(scope, 1), self.term(scope, 1),
                    ["list"] + [r.choice(self.consts) for _ in range(r.randint(0, 3))]]
        if k == "closure":
            return ["closure"] + [self.goal(scope, d - 1, dfs) for _ in range(r.randint(1, 2))]
        if k == "never":
            return ["lib", "never"]
        if k == "always":
            return ["lib", "always"]
        raise ValueError(k)
