from .fdc import run_c17 as run
