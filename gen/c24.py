"""C24 - library list relations implement their documented relations, in every argument mode.
Oracle: Vec-style definitions on Python lists; every case instantiates the query variables over a
small universe and compares the set of instances the implementation's answers cover with the set
the definition accepts (equality when the search finished, inclusion on a bounded prefix)."""
import itertools, random
from . import common as C
from . import progs as P
from . import pcheck
from .searchc import mk_case
from .treec import match, subst

ATOMS = [("a", "1"), ("a", "2"), ("a", "3")]


def pl(xs):
    t = ("nil",)
    for x in reversed(xs):
        t = ("cons", x, t)
    return t


LISTS = [pl(list(c)) for n in range(0, 3) for c in itertools.product(ATOMS[:2], repeat=n)]
UNIV = ATOMS + LISTS


def as_list(t):
    out = []
    while t[0] == "cons":
        out.append(t[1]); t = t[2]
    return out if t[0] == "nil" else None


def spec(rel, args):
    """args are ground terms; -> bool by the documented meaning"""
    if rel == "append":
        l, s, ls = map(as_list, args)
        return l is not None and s is not None and ls is not None and l + s == ls
    if rel == "member":
        l = as_list(args[1])
        return l is not None and args[0] in l
    if rel == "member1":
        l = as_list(args[1])
        return l is not None and args[0] in l
    if rel == "rember":
        l, out = as_list(args[1]), as_list(args[2])
        if l is None or out is None:
            return False
        if args[0] in l:
            i = l.index(args[0])
            return out == l[:i] + l[i + 1:]
        return out == l
    if rel == "permute":
        a, b = as_list(args[0]), as_list(args[1])
        return a is not None and b is not None and sorted(map(str, a)) == sorted(map(str, b))
    if rel == "distinct":
        l = as_list(args[0])
        return l is not None and len(set(map(str, l))) == len(l)
    if rel == "cons":
        return args[2] == ("cons", args[0], args[1])
    if rel == "first":
        return args[0][0] == "cons" and args[0][1] == args[1]
    if rel == "rest":
        return args[0][0] == "cons" and args[0][2] == args[1]
    if rel == "empty":
        return args[0] == ("nil",)
    raise ValueError(rel)


ARITY = {"append": 3, "member": 2, "member1": 2, "rember": 3, "permute": 2, "distinct": 1, "cons": 3, "first": 2, "rest": 2, "empty": 1}
# which argument positions are lists (improper / non-list arguments are outside the documented domain)
LISTPOS = {"append": [0, 1, 2], "member": [1], "member1": [1], "rember": [1, 2], "permute": [0, 1], "distinct": [0], "cons": [],
           "first": [0], "rest": [0, 1], "empty": [0]}
QV = ["q", "r", "t"]


def to_py(e, env):
    if isinstance(e, list):
        if e[0] == "list":
            return pl([to_py(x, env) for x in e[1:]])
        if e[0] == "ilist":
            t = to_py(e[-1], env)
            for x in reversed(e[1:-1]):
                t = ("cons", to_py(x, env), t)
            return t
        if e[0] == "cons":
            return ("cons", to_py(e[1], env), to_py(e[2], env))
    if isinstance(e, int):
        return ("a", str(e))
    if e == "nil":
        return ("nil",)
    return env[e]


def gen_arg(rnd, islist, used, listvars):
    k = rnd.random()
    if k < 0.3:
        v = rnd.choice(QV)
        used.add(v)
        if islist:
            listvars.add(v)
        return v
    def pair():
        # a structured element with a variable possibly nested inside (association-list style)
        out = ["list"]
        for _ in range(2):
            if rnd.random() < 0.4:
                v = rnd.choice(QV); used.add(v); out.append(v)
            else:
                out.append(rnd.randint(1, 2))
        return out
    if islist:
        n = rnd.randint(0, 3)
        items = []
        structured = rnd.random() < 0.25
        for _ in range(n):
            if structured and rnd.random() < 0.8:
                items.append(pair())
            elif rnd.random() < 0.25:
                v = rnd.choice(QV); used.add(v); items.append(v)
            else:
                items.append(rnd.randint(1, 2))
        if items and rnd.random() < 0.15:
            v = rnd.choice(QV); used.add(v); listvars.add(v)
            return ["ilist"] + items + [v]
        return ["list"] + items if items else "nil"
    if rnd.random() < 0.25:
        return pair()
    return rnd.randint(1, 3)


def universes(case):
    return [LISTS if v in case["listvars"] else UNIV for v in case["qvars"]]


def expected_set(rel, args, nq, univ):
    out = set()
    for tup in itertools.product(*univ):
        env = dict(zip(QV, tup))
        try:
            ground = [to_py(a, env) for a in args]
        except KeyError:
            continue
        if spec(rel, ground):
            out.add(tup)
    return out


def instances(res, nq, univ):
    out = set()
    for a in res.answers:
        terms = [P.to_term(P.parse_all(t)[0]) for t in a[0]]
        for tup in itertools.product(*univ):
            b = {}
            if not all(match(p, g, b) for p, g in zip(terms, tup)):
                continue
            ok = True
            for c in a[1]:
                if c is not None and all(subst(("v", k), b) == subst(P.to_term(P.parse_all(v)[0]), b) for k, v in c):
                    ok = False
                    break
            if ok:
                out.add(tup)
    return out


def oracle(cases, impl, model):
    fails = []
    for k, (c, i) in enumerate(zip(cases, impl)):
        if i.error:
            if i.error.startswith("panic"):
                fails.append({"case_index": k, "what": "panic: %s" % i.error})
            continue
        if c.get("skip_instances"):
            continue
        rel, args, nq = c["rel"], c["args"], len(c["qvars"])
        univ = universes(c)
        exp = expected_set(rel, args, nq, univ)
        got = instances(i, nq, univ)
        if i.end == "done":
            if got != exp:
                fails.append({"case_index": k, "what": "%s: instances covered by the answers differ from the definition (extra %s, missing %s)" %
                              (rel, sorted(map(str, got - exp))[:2], sorted(map(str, exp - got))[:2])})
            elif c.get("count_exact"):
                n = c["count_exact"](args)
                if n is not None and len(i.answers) != n:
                    fails.append({"case_index": k, "what": "%s: %d answers, the definition gives %d" % (rel, len(i.answers), n)})
        else:
            if not got <= exp:
                fails.append({"case_index": k, "what": "%s: an answer instance is not in the relation: %s" % (rel, sorted(map(str, got - exp))[:2])})
    return fails


def count_member(args):
    # ground list and ground element: one answer per matching position
    if isinstance(args[1], list) and args[1][0] == "list" and all(isinstance(x, int) for x in args[1][1:]) and isinstance(args[0], int):
        return sum(1 for x in args[1][1:] if x == args[0])
    if args[1] == "nil":
        return 0
    return None


def count_member1(args):
    if isinstance(args[1], list) and args[1][0] == "list" and all(isinstance(x, int) for x in args[1][1:]):
        if isinstance(args[0], int):
            return 1 if args[0] in args[1][1:] else 0
        if isinstance(args[0], str):
            return len(set(args[1][1:]))
    return None


def is_ground(e):
    if isinstance(e, list):
        return all(is_ground(x) for x in e[1:])
    return isinstance(e, int) or e == "nil"


def glist(e):
    """the elements of a ground proper list, else None"""
    if e == "nil":
        return []
    if isinstance(e, list) and e[0] == "list" and is_ground(e):
        return e[1:]
    return None


def isvar(e):
    return isinstance(e, str) and e != "nil"


def count_append(args):
    l, s_, ls = glist(args[0]), glist(args[1]), glist(args[2])
    if l is not None and s_ is not None:
        # forward mode: exactly one answer (or none when the third argument is ground and different)
        if ls is not None:
            return 1 if l + s_ == ls else 0
        if isvar(args[2]):
            return 1
    if ls is not None and isvar(args[0]) and isvar(args[1]) and args[0] != args[1]:
        return len(ls) + 1          # every split once
    return None


def count_rember(args):
    l = glist(args[1])
    if isinstance(args[0], int) and l is not None and all(isinstance(x, int) for x in l) and isvar(args[2]):
        return 1
    return None


def known(case, failure, known_ids):
    if case.get("rel") == "permute" and "permute_not_permutation" in known_ids:
        return "permute_not_permutation"
    return None


def run(tier, seed, replay=None):
    rnd = random.Random(seed)
    n = 60 if tier == "quick" else 500
    cases = []
    for rel in ARITY:
        for _ in range(n):
            used, listvars = set(), set()
            args = [gen_arg(rnd, p in LISTPOS[rel], used, listvars) for p in range(ARITY[rel])]
            q = QV[: max([QV.index(v) for v in used] + [0]) + 1]
            cx = {"member": count_member, "member1": count_member1, "append": count_append, "rember": count_rember}.get(rel)
            cases.append(mk_case([], q, [["lib", rel] + args], maxans=30, budget=700, rel=rel, args=args, count_exact=cx, listvars=sorted(listvars)))
    # the element searched for is a pair of two query variables, the list an association list with repeated keys and one of those
    # variables inside: several disequalities between pairs are stored on the way (compared exactly with the model)
    for _ in range(40 if tier == "quick" else 400):
        rel = rnd.choice(["member1", "member1", "rember"])
        keys = [rnd.randint(1, 2) for _ in range(rnd.randint(3, 4))]
        items = [["list", k2, rnd.choice([1, 2, 3, "r"])] for k2 in keys]
        x = ["list", "q", "r"]
        args = [x, ["list"] + items] + (["t"] if rel == "rember" else [])
        q = ["q", "r", "t"] if rel == "rember" else ["q", "r"]
        cases.append(mk_case([], q, [["lib", rel] + args], maxans=30, budget=1500, rel=rel, args=args, count_exact=None,
                             listvars=(["t"] if rel == "rember" else []), skip_instances=True))
    return pcheck.run_check("C24", tier, seed, cases, "exact", oracle, cone=["Proofs/EngineProofs.vo", "Gen/RelDefs.vo", "Proofs/SemProofs.vo", "Proofs/MonoProofs.vo", "Proofs/RelSound.vo", "Proofs/RelSound2.vo", "Proofs/LibComplete.vo", "Proofs/LibCor.vo"], replay=replay,
        rule="for each of member, member1, append, rember, permute, distinct, cons, first, rest, empty: random argument modes (each argument "
             "ground, partially ground with query variables inside, improper with a variable tail, or a fresh query variable) over lists of "
             "length <= 3 with repeats; the instances (over a universe of 3 atoms and 7 lists) covered by the answers must equal the "
             "Vec-based definition when the search ends and be included in it on a bounded prefix; answer counts for member/member1 on "
             "ground lists; step-exact against the model run on the translated definitions; non-trivial = at least one answer",
        known_classifier=known,
        extra_cov=lambda cs, i, m: {"per_relation": {r: sum(1 for c in cs if c["rel"] == r) for r in ARITY}})
