"""C01 - unification computes a most general unifier, with occurs check.
Exhaustive small scope over the term algebra (literals, variables, lists, improper lists, compounds),
under prior substitutions reached by earlier unifications.  Observable: success/failure, walk* of both
sides, walk* of every variable.  Oracle: an independent Python unifier (gen/refsem.py)."""
import itertools, random
from . import common as C
from . import progs as P
from .refsem import Ref

PID = "C01"
VARS = ["x0", "x1", "x2"]


def terms_upto(n, atoms):
    by = {1: list(atoms)}
    for s in range(2, n + 1):
        out = [["comp", "Wrap", t] for t in by[s - 1]]
        for a in range(1, s - 1):
            b = s - 1 - a
            if b >= 1:
                for x in by[a]:
                    for y in by[b]:
                        out.append(["cons", x, y])
                        out.append(["comp", "Pair", x, y])
        by[s] = out
    return [t for s in range(1, n + 1) for t in by[s]]


def line(prior, u, v):
    return P.sx(["unify", ["vars"] + VARS, ["prior"] + [[a, b] for a, b in prior], u, v])


def oracle(prior, u, v):
    r = Ref()
    env = {n: ("v", i) for i, n in enumerate(VARS)}
    s = {}
    for a, b in prior:
        s = r.unify(r.term(a, env), r.term(b, env), s)
        if s is None:
            return "prior-fail"
    tu, tv = r.term(u, env), r.term(v, env)
    s2 = r.unify(tu, tv, s)
    if s2 is None:
        return "fail"
    names = {i: n for i, n in enumerate(VARS)}

    def show(t):
        t = r.walk_star(t, s2)
        return P.show(r.ren(t, names))
    a, b = show(tu), show(tv)
    if a != b:
        return "oracle-bug"
    return "ok"


def run(tier, seed, replay=None):
    res = C.Result(PID, tier, seed)
    pr = C.proof_step(res, PID, ["Proofs/UnifyProofs.vo", "Proofs/AcycState.vo", "Proofs/ScopeReify.vo"])
    rnd = random.Random(seed)
    atoms = [1, 2, "#t", "nil"] + VARS
    ts = terms_upto(3 if tier == "quick" else 4, atoms)
    cases = []
    if replay:
        import json
        cases = [tuple(json.load(open(replay))["case"])]
    else:
        pairs = [(u, v) for u in ts for v in ts]
        if tier == "quick" and len(pairs) > 12000:
            pairs = rnd.sample(pairs, 12000)
        if tier != "quick" and len(pairs) > 150000:
            pairs = rnd.sample(pairs, 150000)
        for u, v in pairs:
            cases.append(((), u, v))
        small = terms_upto(3, atoms)
        for _ in range(8000 if tier == "quick" else 60000):
            np_ = rnd.randint(1, 3)
            prior = tuple((rnd.choice(VARS) if rnd.random() < 0.6 else rnd.choice(small), rnd.choice(small)) for _ in range(np_))
            cases.append((prior, rnd.choice(small), rnd.choice(small)))
        # deeper random terms and the literal kinds
        g = P.Gen(rnd, comps=True)
        for _ in range(3000 if tier == "quick" else 30000):
            prior = tuple((rnd.choice(VARS), g.term(VARS, 2)) for _ in range(rnd.randint(0, 2)))
            cases.append((prior, g.term(VARS, 3), g.term(VARS, 3)))
        # a compound with NAMED fields one of which is compound-typed (a chain): variables, [] and further links in that position
        def nlink(d):
            lab = rnd.choice([1, 2, "x0", "x1"])
            nxt = rnd.choice(["x0", "x1", "x2", "nil"]) if d == 0 or rnd.random() < 0.4 else nlink(d - 1)
            return ["comp", "NLink", lab, nxt]
        for _ in range(1500 if tier == "quick" else 15000):
            prior = tuple((rnd.choice(VARS), rnd.choice([nlink(1), "nil", 1, rnd.choice(VARS)])) for _ in range(rnd.randint(0, 2)))
            u = nlink(rnd.randint(0, 2))
            v = rnd.choice([nlink(rnd.randint(0, 2)), rnd.choice(VARS), u])
            cases.append((prior, u, v))
    lines = [line(*c) for c in cases]
    exe = C.build_driver()
    model = C._run_lines(exe, lines, C.rundir(PID), "model", 900, env={"OCAMLRUNPARAM": "l=64M"})
    impl = C.run_impl(PID, lines)
    fails, disagree, nontriv, outcomes = [], 0, set(), {}
    for k, (c, m, i) in enumerate(zip(cases, model, impl)):
        o = i.split(" ")[0]
        outcomes[o] = outcomes.get(o, 0) + 1
        if m != i:
            disagree += 1
        exp = oracle(*c)
        bad = None
        if exp in ("ok", "fail", "prior-fail"):
            if o != exp:
                bad = "implementation says %s, an independent unifier says %s" % (o, exp)
            elif o == "ok":
                parts = P.parse_all(i[3:])
                if P.sx(parts[0]) != P.sx(parts[1]):
                    bad = "the two sides do not resolve to the identical term"
        if bad:
            fails.append((k, bad))
        if o == "ok" and c[0]:
            nontriv.add(lines[k])
    for k, bad in fails[:3]:
        res.violation({"case": list(cases[k]), "case_line": lines[k], "implementation": impl[k], "model": model[k],
                       "oracle": oracle(*cases[k]), "explanation": bad})
    if not pr["ok"]:
        res.violation({"broken_obligation": pr["problems"], "theorems": pr["theorems"]}, no_input=not fails)
    if disagree and not fails:
        k = next(k for k in range(len(cases)) if model[k] != impl[k])
        res.violation({"theorem_or_correspondence": "correspondence Model/Unify.v vs State::unify", "case_line": lines[k],
                       "implementation": impl[k], "model": model[k], "n_disagreements": disagree}, no_input=True)
    res.coverage.update({
        "evaluations": len(cases), "distinct_nontrivial": len(nontriv),
        "rule": "all ordered pairs of terms of size <= 3 (4 thorough, sampled) over {1, 2, #t, [], x0..x2, cons, Pair/2, Wrap/1} with no prior "
                "bindings; random pairs under 1-3 prior unifications (var-var aliasing, occurs through aliases); random deeper terms with "
                "all literal kinds, improper lists and four compound types; non-trivial = succeeds under a non-empty prior",
        "samples": [lines[0], lines[len(lines) // 2], lines[-1]],
        "outcome_distribution": outcomes, "model_impl_disagreements": disagree, "oracle_failures": len(fails),
        "exhaustive": False,
    })
    res.assumptions = ["User-defined terms (LTermInner::User, User::unify) are not modelled",
                       "'success implies a finite unifier exists' (acyclicity of the answer) is observed (walk* of both sides is "
                       "finite and identical on every case) but not proved; fuel adequacy is not proved"]
    return res.finish()
