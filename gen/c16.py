from .fdc import run_c16 as run
