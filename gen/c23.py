"""C23 - solving well-formed programs never panics.
Theorem side: Proofs/PanicProofs.v classifies, for all goals, states and fuel, which panic sites of
the model any execution can reach (only the documented ill-formedness assertions).
Check side: every program of every generator of this framework (tree, search, FD, CLP(Z),
compound, project, for, pattern matching, surface) is run on the implementation in a debug build
(arithmetic overflow checks on) with a panic hook and per-case catch_unwind; a panic is a violation.
The model runs the same programs: it must not report a panic outcome either, and must agree on
how each run ends."""
import importlib, random
from . import common as C
from . import progs as P
from . import pcheck

GENS = ["c02", "c03", "c04", "c05", "c06", "c07", "c08", "c09", "c10", "c11", "c12", "c13", "c14", "c15", "c16", "c17", "c19", "c20",
        "c22", "c24"]
FULL = {"C16", "C17", "C19", "C20"}   # finite-domain / CLP(Z) / compound generators: every quick-tier case
CONE = ["Proofs/PanicProofs.vo", "Proofs/CLPZProofs.vo", "Proofs/KeyProofs.vo", "Proofs/KeyStream.vo"]


def collect(tier, seed):
    pcheck.COLLECT = []
    try:
        for g in GENS:
            importlib.import_module("gen." + g).run(tier, seed)
        return pcheck.COLLECT
    finally:
        pcheck.COLLECT = None


def run(tier, seed, replay=None):
    import json
    res = C.Result("C23", tier, seed)
    pr = C.proof_step(res, "C23", CONE)
    if replay:
        obj = json.load(open(replay))
        allc = [(obj.get("generator", "?"), obj["case"])]
    else:
        allc = collect("quick", seed)
        if tier == "quick":
            rnd = random.Random(seed)
            by = {}
            for g, c in allc:
                by.setdefault(g, []).append(c)
            allc = [(g, c) for g in sorted(by) for c in (by[g] if g in FULL else rnd.sample(by[g], min(len(by[g]), 150)))]
        else:
            allc += collect("quick", seed + 1000) + collect("quick", seed + 2000)
    lines = [c["line"] for _, c in allc]
    model, impl, terrs = P.run_both("C23", lines, profile="debug")
    panics, mpanics, enddiff = [], [], []
    ends, per_gen = {}, {}
    for k, ((g, c), m, i) in enumerate(zip(allc, model, impl)):
        per_gen[g] = per_gen.get(g, 0) + 1
        ends[i.error.split(":")[0] if i.error else i.end] = ends.get(i.error.split(":")[0] if i.error else i.end, 0) + 1
        if i.error and (i.error.startswith("panic") or i.error.startswith("crash")):
            panics.append(k)
        if m.error and m.error.startswith("panic"):
            mpanics.append(k)
        if (m.error or m.end) != (i.error or i.end) and not (i.error and i.error.startswith("panic")):
            enddiff.append(k)
    for k in panics[:3]:
        res.violation({"generator": allc[k][0], "case": {"line": lines[k]}, "implementation": impl[k].raw[:2000], "model": model[k].raw[:2000],
                       "what": "solving a well-formed program panicked"})
    if (mpanics or enddiff) and not panics:
        k = (mpanics + enddiff)[0]
        res.violation({"theorem_or_correspondence": "correspondence of run outcomes (model vs implementation)", "generator": allc[k][0],
                       "case": {"line": lines[k]}, "implementation": impl[k].raw[:2000], "model": model[k].raw[:2000],
                       "n_model_panics": len(mpanics), "n_end_differences": len(enddiff)}, no_input=True)
    if not pr["ok"]:
        res.violation({"broken_obligation": pr["problems"], "theorems": pr["theorems"]}, no_input=not panics)
    res.coverage.update({
        "evaluations": len(lines), "distinct_nontrivial": len({l for l, i in zip(lines, impl) if i.answers}),
        "rule": "the programs of every generator of the framework (C02-C17, C19, C20, C22, C24; the quick-tier set of each, sampled to at most "
                "150 per generator in the quick tier (all cases of the FD, CLP(Z) and compound generators), three seeds in the thorough tier) run to exhaustion or to their answer/step bound on a "
                "debug build (overflow checks on) under a panic hook and per-case catch_unwind; any panic is a violation; the model must end "
                "each run the same way and never with a panic outcome; non-trivial = at least one answer",
        "samples": [lines[0], lines[len(lines) // 2], lines[-1]], "per_generator": per_gen, "impl_end_distribution": ends,
        "impl_panics": len(panics), "model_panic_outcomes": len(mpanics), "end_differences": len(enddiff),
    })
    res.assumptions = ["well-formedness is by construction of the generators (FD operands are variables or integers with domains posted before "
                       "labeling; magnitudes far inside isize); ill-formed programs are outside the property",
                       "memory exhaustion and stack overflow on very deep terms are not panics and are not explored"]
    return res.finish()
