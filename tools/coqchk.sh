#!/bin/bash
# Independent re-check of every compiled theory the property files depend on (run by hand; minutes).
cd /verif/coq || exit 1
make -j16 >/dev/null 2>&1 || { echo "make failed"; exit 1; }
mods=""
for f in Properties/C*.v; do
  b=$(basename $f .v)
  timeout 900 coqc -Q . PV $f >/dev/null 2>&1 || { echo "$f does not compile"; exit 1; }
  mods="$mods PV.Properties.$b"
done
( time timeout 7200 coqchk -silent -o -Q . PV $mods ) > /verif/coqchk_report.txt 2>&1
tail -20 /verif/coqchk_report.txt
