#!/bin/bash
# usage: tools/seedtest.sh seeded/<name> Cxx [Cyy ...] : apply the seeded change to /repo, run the checks, undo it.
d=$1; shift
cd /verif
git -C /repo diff --quiet || { echo "/repo is dirty"; exit 2; }
git -C /repo apply /verif/$d/patch.diff || { echo "patch does not apply"; exit 2; }
for p in "$@"; do
  out=$(timeout 1500 ./check $p --tier quick 2>&1 | grep -v conda | grep -E "^(VIOLATION|OK|KNOWN)" | head -3 | tr '\n' ';')
  echo "$(basename $d) $p => $out"
done
git -C /repo checkout -- .
# restore evidence of the unchanged tree for the properties that were run
for p in "$@"; do timeout 1500 ./check $p --tier quick >/dev/null 2>&1; done
