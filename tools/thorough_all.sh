#!/bin/bash
# every property's thorough tier, sequentially; summary in .cache/thorough_all.log
cd /verif
for i in 01 02 03 04 05 06 07 08 09 10 11 12 13 14 15 16 17 18 19 20 21 22 23 24; do
  s=$(date +%s)
  r=$(timeout 3000 ./check C$i --tier thorough 2>&1 | grep -E "^(OK|VIOLATION|KNOWN)" | cut -c1-160 | tr '\n' ';')
  echo "C$i $(( $(date +%s) - s ))s $r"
done
