#!/bin/bash
# every check's quick tier under several seeds on the current tree: any VIOLATION here is a false alarm (or a new finding)
cd /verif
for sd in "$@"; do
  for i in 01 02 03 04 05 06 07 08 09 10 11 12 13 14 15 16 17 18 19 20 21 22 23 24; do
    r=$(VERIF_SEED=$sd timeout 1500 ./check C$i --tier quick 2>&1 | grep -E "^(OK|VIOLATION)" | cut -c1-140 | tr '\n' ';')
    echo "seed=$sd C$i $r"
  done
done
