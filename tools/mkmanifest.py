#!/usr/bin/env python3
"""Regenerates /verif/MANIFEST.json from the table below (one entry per claimed property)."""
import json

NOTE = ("Trusted: Coq 8.16.1 kernel (vm_compute; no native_compute); no axioms (Print Assumptions of every property theorem is "
        "'Closed under the global context'); the model coq/Model/*.v is a hand transcription of the Rust code and is tied to /repo on "
        "every run by the differential correspondence (Rust harness through the public API vs the OCaml extraction of the same Gallina "
        "definitions; ExtrOcamlBasic only); gen/pv2sexp.py translates src/relation/*.rs on every run; the Python oracles are trusted "
        "for the failing-input search only. ")

CLAIMED = {
 "C23": ("Every panic/assert/unwrap/unreachable site of the modelled code is an explicit outcome of the model. Proved for ALL goals, states, "
         "definitions and fuel (no well-formedness assumption): the only sites any execution reaches are the documented ill-formedness "
         "assertions (distinctfd on a non-list / non-integer element, an FD relation built on an operand that is neither variable nor "
         "integer, labeling without a domain, an undefined relation); the sites of exclude_from_domain, update_var_domain, the timesz "
         "division and a second visit of a project goal are unreachable; and for every query (the goal proto_vulcan_query! builds from any "
         "body) the disequality-key assertion is unreachable, by the invariant 'constraint identities unique, keys of stored disequalities "
         "unbound', which run_constraints re-establishes from any state and which therefore holds in every state the search still uses. "
         "Tied to the code by running the programs of every generator of the framework on a debug build under a panic hook.",
         "6/C23", "Coq proof: classification of the reachable panic sites over all programs + store invariant excluding the disequality-key assertion for every query + all-generator panic sweep on a debug build",
         "Integer overflow outside FiniteDomain, stack depth and allocation failure are outside the model (magnitudes kept small; C18 covers the extremes)."),
 "C11": ("Theorems over the engine model: project |x..| { body } builds its body per arriving state from the walk* of the listed variables in "
         "that state, so reaching the goal from several states (a preceding disjunction, repeated solving) gives each state its own terms, "
         "never a panic outcome; unlisted variables are untouched. Tied to the code by project programs (sq fngoal under disjunctions, "
         "nested projects, partial and compound bindings) compared step-exactly.",
         "6/C11", "Coq proof: project = body under the arriving state's walk* substitution, for every state + step-exact differential correspondence + reference oracle",
         "The Rust closure passed to Project::new is modelled as the elaborated body under the projection environment."),
 "C13": ("PARTIAL. Proved over the elaboration model: an arm p => body of match/matche/matcha/matchu is the clause [t == p; body] with t "
         "built in the outer environment, one new variable per distinct pattern name (NoDup, a repeated name is one variable), a new "
         "any-variable per `_`, pattern names shadowing outer ones; the operators are conde/conda/condu over those clauses (C05-C08 give "
         "their answers). The proc-macro parser itself is not modelled: generated match programs are printed as Rust, compiled against the "
         "current macros and compared step-exactly with the model and with the reference expansion.",
         "6/C13", "Coq proof of the arm expansion over the elaboration model + compiled-surface-program differential correspondence + reference expansion oracle",
         "Parser (token level) covered by the compiled batches only; the multi-arm/multi-alternative expansion is stated for the one-arm building block."),
 "C14": ("PARTIAL. Proved over the elaboration model: what each construct builds (true/false, ==/!= as state unification/disunification, "
         "fresh = new distinct variables then conjunction, closure = its body constructed on arrival, list/improper-list/_/literal terms "
         "denote the written term). The answers of the built goals are C05-C08. The token-level macros are tied by compiling generated "
         "programs over the whole clause grammar and comparing answers, order and step counts with the model and the reference semantics.",
         "6/C14", "Coq proof of construct-by-construct elaboration equations + compiled-surface-program differential correspondence + reference semantics oracle",
         "Parser covered by compiled batches only; lterm! and {expr} arguments are exercised by the harness, not by generated programs."),
 "C15": ("PARTIAL. Proved: the variables a fresh block / pattern arm / query introduces are pairwise distinct, new (at or above the counter) "
         "and shadow the enclosing scope; the counter is monotone and each unfolding of a relation constructs its body from the arriving "
         "state's counter; term construction depends only on the free names and is invariant under consistent renaming of a bound name. "
         "For WHOLE EXECUTIONS (ScopeElab, ScopeState, ScopeStream): goal construction and the four state operations never invent a "
         "variable, so for all programs, definitions, strategies and fuel every state of every stream has all its variables (substitution, "
         "stored constraints, domains) below its counter and every pending goal is below the counter of every state it will run in; hence "
         "every variable drawn at run time (fresh, patterns, wildcards, closure and relation bodies unfolded again, recursively or not) is "
         "different from every variable of the state and of the enclosing environment. "
         "Whole-program alpha-invariance is decided by compiling each generated program as written and renamed apart.",
         "6/C15", "Coq proof: freshness/distinctness of bind_fresh, counter monotonicity, alpha-invariance of term construction + original-vs-renamed compiled programs",
         "Alpha-invariance of whole goals is checked, not proved; VarID's global atomic counter is modelled as the per-state counter."),
 "C20": ("Theorems: a compound term unifies, is walked, occurs-checked, reified and searched for any-variables as the tagged tuple of its "
         "fields (same type name and arity unify field-wise; different tags or a compound against a list/literal fail). Programs mixing four "
         "#[compound] types with lists, disequalities and finite domains are compared step-exactly and against the structural reference.",
         "6/C20", "Coq proof: structural unification/reification theorems instantiated at compound terms + differential correspondence + brute-force FD oracle inside compounds",
         "The tagged-list twin of the property text is replaced by the reference semantics; Rust tuples and Option compounds are not exercised."),
 "C21": ("Theorems for all terms: == is the structural equivalence up to variable names (reflexive, symmetric, transitive), equal terms feed "
         "the hasher the same sequence, and from_vec/collect, iter, improper_from_vec, extend, indexing, head/tail, is_improper and contains "
         "are the corresponding operations on the element sequence with the improper tail as final element.",
         "6/C21", "Coq proof: equivalence/hash/list laws over the term model + exhaustive small-term differential run through the real PartialEq, Hash, HashMap and list API",
         "The byte-level Hasher protocol of derive(Hash) is abstracted to a token sequence; Display is checked by a Python oracle only."),
 "C24": ("The relation definitions are re-translated from src/relation/*.rs on every run. UNBOUNDED soundness: for append, member, and - "
         "with the stored disequalities of the answer - rember, member1, distinct and permute (the latter against the relation as "
         "defined), in every argument mode, for arbitrary (also partial, non-ground) terms, any search kind, fuel and number of steps, every answer the "
         "engine delivers satisfies, under every valuation solving the answer, the inductive relation (c = a with b "
         "appended; x is an element of l; out is l without the first x; elements pairwise different) - through a general theorem that everything the engine delivers is derivable in a declarative "
         "big-step semantics of goals. UNBOUNDED completeness of append, member, member1, rember, distinct and permute-as-defined (RelComplete, LibComplete): whenever a valuation solves the "
         "state the call starts from and the values of the arguments under it are in the relation (any mode, arbitrary terms, whatever else the "
         "state holds), the call delivers after finitely many steps an answer solved by a valuation that agrees with it on every variable that "
         "existed before the call - so with soundness the solutions of the delivered answers are exactly the relation; read on lists of any "
         "length: every split of l is covered by an answer of append(q0, q1, l), every element by an answer of member(q0, l). These instantiate "
         "a general theorem (RelComplete) for programs of ==, !=, domains, constraints, conjunction, disjunction, fresh, relation calls, closure blocks and for-loops. "
         "BOUNDED exactness (answer sets and counts): for every list over {1,2} (length <= 3/4) the engine model, "
         "evaluated inside Coq (forallb by vm_compute, lifted), gives exactly the answers of the Vec-based definition for append (both "
         "directions), member, member1, rember, distinct, cons/first/rest/empty. Beyond that scope all argument modes are compared with "
         "Vec-based definitions on the implementation. permute is refuted (known finding, pinned by test_permute_1).",
         "6/C24", "Coq proof: unbounded soundness of all six relations via the declarative semantics, unbounded completeness of all six through relation calls + exhaustive evaluation over a stated finite scope + all-modes instance oracle",
         "Answer multiplicities (member1 \"exactly once\") are proved only over the stated finite scope; the translator rejects relation functions with Rust code around the macro body."),
 "C16": ("Proved for WHOLE PROGRAMS (FDProg.fd_delivered_sound): for all relation definitions and goals whose written domains are well-formed, "
         "all search strategies and fuel, every valuation that solves an answer state Solver::next delivers (before reification) satisfies "
         "the logical reading of the program - every posted ltefd/plusfd/minusfd/timesfd/diseqfd/distinctfd/CLP(Z) constraint as its integer "
         "relation, every posted domain as membership, == as equality, != as difference - and solves the state the program started from. "
         "Underneath, for ALL states with well-formed domains and acyclic substitutions, all operands: post_constraint, post_domain, the store "
         "re-run and == (including the hand-over of the domains of newly bound variables) yield a state all of whose solutions satisfy the "
         "posted constraint and everything stored before (FDDen, FDEq), whether the propagator decided, pruned, dropped or bound; plus exact "
         "ground decisions per propagator, and QUIESCENCE (QProofs, QStream): in every state of every stream of every elaborated goal and in every "
         "delivered answer, no ltefd/plusfd/minusfd/timesfd/diseqfd/plusz/timesz constraint is stored with all of its operands resolved to numbers "
         "- such a constraint has been decided and removed, never left unchecked with stale operands. The reification step and the Rust-side hash order are outside; the tie to the code is the "
         "brute-force enumeration of the domain product on generated programs, with the answer multiset also compared with the model.",
         "6/C16", "Coq proof of whole-program soundness of CLP(FD) (logical reading of every posted constraint holds in every solution of every delivered answer) + brute-force domain-product oracle + differential correspondence",
         "The theorem is about the model (hand-written, step-exact against the implementation on generated programs); reified answers are related to the pre-reification state by C03."),
 "C17": ("PARTIAL. Proved for ALL states with well-formed domains, every constraint kind and any operands: posting a constraint, posting a "
         "domain and re-running the store lose no solution - every valuation that solves the state and satisfies the constraint (arithmetic "
         "values within isize, the guard of the property) solves the returned state, through all prunings, singleton bindings, nested re-runs "
         "and constraint drops; failure is returned only when no such valuation exists (FDComp: post_constraint_C, post_domain_C, "
         "run_constraints_C). The pruning intervals contain every solution value (all signs, saturation, corner hull, quotient only for "
         "non-negative domains), and labeling enumerates each domain value once. `==` between domain variables loses no solution either "
         "(FDEq.state_unify_C: the domain of each newly bound variable is intersected into the term it was bound to). For whole programs "
         "without recursion and before labeling (domains, all constraints, ==, !=, interleaving conjunction/disjunction, fresh): every "
         "solution of the reading solves an answer state that is delivered after finitely many steps unless an engine step errs first "
         "(Complete0.complete0_delivered), and labeling loses none either: force_ans(q) started in a state th solves delivers a state th "
         "still solves, through lists and compound terms (ForceC.force_delivered, flat_then_label). The same holds for programs with "
         "CALLS of recursively defined relations, closure blocks and for-loops, up to the variables drawn while running, given a value-level reading of the "
         "relations that unfolds to the reading of their bodies (RelComplete.completeV, LibCor.calls_then_label; discharged for the library list "
         "relations). Not proved: the labeling of hidden "
         "variables under onceo, project bodies, and the second half of uniqueness (a program without disjunction has at most one answer "
         "state before labeling - Unique.det_one_answer - and labeling enumerates each domain value once, but that the labeled answers "
         "are pairwise different is checked, not proved); completeness and uniqueness over whole programs are decided "
         "against brute force (query variables, lists, compounds, hidden variables).",
         "6/C17", "Coq proof that no state operation loses a solution (all constraint kinds, any operands) + brute-force projection oracle + differential correspondence",
         "The whole-program lift of completeness is mechanised for recursion-free programs and for programs with relation calls given a value-level reading; labeling of hidden variables and uniqueness of labeled answers are not."),
 "C19": ("Theorems by case analysis on groundness, for all states and operands: all ground = decided exactly; two ground = the third bound to "
         "the unique solution (division exact and divisor non-zero), failure when none exists, constraint kept when every integer works; fewer "
         "ground = kept (including all three unbound); never a panic outcome. Semantically, as posted goals on any state: every solution of "
         "the returned state solves the original state and satisfies the integer equation (sound), every solution of the original state "
         "that satisfies the equation solves the returned state, through the re-run of every other stored constraint a binding triggers, and "
         "failure is returned only when none exists (complete).",
         "6/C19", "Coq proof: exhaustive groundness case analysis of plusz/timesz + arithmetic of the unique solution + all-patterns differential run",
         "Order-freedom relies on run_constraints after every unification (C22's invariant); checked for all posting orders."),
 "C01": ("Theorems for all terms (literals, variables, proper/improper lists, compounds), all prior substitutions and all fuel: on success "
         "the solutions of the answer are exactly the unifiers consistent with the prior bindings (soundness, most general), the answer "
         "extends the prior substitution by the reported extension; on failure no consistent unifier exists (clashes, arity, occurs check by a "
         "size argument). From an acyclic prior substitution the answer is acyclic, has the finite-tree solution `solve s'` which unifies both "
         "sides, is idempotent, and of which every consistent unifier is an instance (idempotent mgu; success implies a finite unifier); the "
         "walk loop terminates within the model's fuel. Every substitution in every state of every stream of every elaborated goal is "
         "acyclic (all four state operations preserve it, lifted over the search). Depth-fuel exhaustion is a third, separate outcome.",
         "6/C01", "Coq proof: solution-set characterisation of unification, idempotent mgu from acyclic substitutions, acyclicity as an invariant of the whole search + exhaustive small-scope differential correspondence",
         "Depth fuel (term recursion, 4000) adequacy is not proved: a term deeper than that gives the separate out-of-fuel outcome in the model (a stack overflow in Rust). The reification step keeps the substitution acyclic as well (ScopeReify, from the scoping invariant of C15)."),
 "C02": ("Theorems: posting u != v stores a constraint that holds exactly when u and v differ (or nothing / failure in the two decided "
         "cases); re-checking after a unification keeps an equivalent constraint, drops only satisfied ones and fails only on violated "
         "ones; subsumption is implication; normalisation preserves the meaning of the store; the store's meaning is order-free. WHOLE "
         "PROGRAMS (soundness): for any goal, search kind, fuel and number of steps, every valuation that solves a delivered answer "
         "(its substitution and every stored disequality) satisfies the logical reading of the program (== equality, != difference, "
         "conjunction, disjunction, relation calls by their bodies) and solves the starting state. Completeness per operation: posting != and "
         "re-checking the store lose no solution and fail only when none exists (DisunifyC, FDComp). EXACTNESS for the programs of this "
         "property (==, !=, interleaving conjunction and disjunction, fresh; from the initial state): the valuations solving the delivered "
         "answers are exactly the valuations satisfying the logical reading - no wrong instance, and every solution solves an answer that "
         "is delivered after finitely many steps unless an engine step errs first (Complete0.tree_program_exact).",
         "6/C02", "Coq proof: denotation of disequality posting, re-check, subsumption, normalisation + whole-program logical soundness of delivered answers (via the declarative semantics) + differential correspondence + ground-instance oracle",
         "The completeness direction for whole programs (every ground solution of the program is an instance of some answer) is checked by the ground oracle over a finite universe, not proved."),
 "C03": ("Theorems: reported constraints mention only reified variables of the answer; constraints() returns exactly the reported "
         "constraints with an operand among the any-variables occurring anywhere in the term (lists and compounds included); reification only "
         "adds bindings to new any-variables. From an acyclic, scoped substitution (which every state of every execution has: C01, C15) the "
         "reified names are drawn from the counter: new (different from every variable of the state and the term), pairwise different, one "
         "per renamed variable, each unbound before; the result is acyclic and scoped, so all occurrences of a variable across the query "
         "variables resolve to one name (ScopeReify).",
         "6/C03", "Coq proof: structural lemmas of purify / anyvars / reify + per-answer structural oracle on the implementation",
         "Injectivity of reification across query variables is checked on every answer, not proved."),
 "C04": ("Proved: permuting the clauses of a disjunction permutes its admissible answers; two equalities (and two disequalities) posted in "
         "either order yield the same solutions and no order fails spuriously; the logical reading of a goal is independent of the order "
         "of conjuncts and clauses, and every solution of every delivered answer of any program satisfies it (so a reordering can neither "
         "add solutions to an answer nor make an answer violate the reordered program). For the tree programs of this property (==, !=, "
         "interleaving conjunction/disjunction, fresh) nothing is lost either: the solutions of the delivered answers are exactly the "
         "valuations satisfying the order-free reading, so every solution of an answer of one ordering solves an answer that the other "
         "ordering delivers after finitely many steps (Complete0; C04_same_solutions_any_order). The multiset bijection (multiplicities) "
         "and FD posting orders are checked (all permutations of small conjunctions), not proved.",
         "6/C04", "Coq proof of order-freedom at the store/disjunction level and of the logical reading + whole-program soundness + permutation-group oracle on the implementation",
         "That a reordering loses no answers (completeness) is checked on generated programs, not proved."),
 "C12": ("Proved: the goal everyg solves is the conjunction (from_array) of the instantiated bodies in reverse order; an empty collection "
         "succeeds exactly once with the state unchanged; and semantically, for any collection and body: every solution of every answer "
         "the engine delivers for `for x in coll { body }` satisfies the logical reading of the body constructed for EVERY element (one "
         "body per element) and solves the starting state, whatever the scheduling of the conjuncts.",
         "6/C12", "Coq proof: everyg = reversed conjunction, empty case, every-element soundness through the declarative semantics + for-vs-explicit-conjunction oracle on the implementation",
         "That no answer of the explicit conjunction is lost (completeness) is checked by the oracle; order-insensitivity of conjunction is C04."),
 "C22": ("Theorems: #with_constraint = #take_constraint + store size is preserved by every state operation (unify, disunify, posting and "
         "re-running every constraint kind, domains, normalisation with dropped constraints), for all fuel, and therefore holds in every "
         "state of every stream the engine builds and in every answer Solver::next delivers, for all goals and definitions (lifted over "
         "the search by a generic stream-invariant theorem); a successful unification logs exactly one extension event carrying exactly "
         "its new bindings.",
         "6/C22", "Coq proof: hook-balance invariant over all state operations, lifted to every reachable stream state and answer + instrumented-User differential run with probes",
         "The User's own hook bodies are modelled as a log; absolute call counts depend on HashSet order and are not compared."),
 "C05": ("Theorems over the stream model: everything the engine delivers is admissible for the reference stream semantics, in which "
         "depth-first disjunction is concatenation in clause order and depth-first conjunction is the list-monad bind (all sizes, depths, "
         "fuel). Tied to the code by a step-exact differential run (answer sequence and engine-step count per answer).",
         "6/C05", "Coq proof: engine refines list-monad stream semantics (exact order at DFS nodes) + step-exact differential correspondence",
         "Liveness (the run reaches the end) is not proved; a delivered prefix is proved admissible."),
 "C06": ("Theorems: whatever interleaving search delivers is a permutation-admissible sequence of the reference stream semantics (nothing "
         "lost when the stream is exhausted, nothing invented); every delivered answer of a finite or infinite stream is an answer "
         "(membership semantics), compositionally for disjunction and conjunction; and, declaratively, every answer the engine delivers "
         "for ANY goal (both search kinds, any fuel, any number of steps) is derivable in a big-step semantics of goals that knows nothing "
         "of streams (conjunction = composition, disjunction = union, calls = constructed bodies), with a substitution extending the "
         "starting one; conversely, on the pure relational fragment every derivable answer is delivered after finitely many steps "
         "(FairProofs.fair_complete), so there the delivered answers are exactly the derivable ones.",
         "6/C06", "Coq proof: backward preservation of reference stream semantics + soundness w.r.t. a declarative big-step semantics (all goals) + step-exact correspondence",
         "Equality of the multisets of the dfs{} twin and the interleaved program (completeness direction) is checked on the implementation and against the Python reference, not proved."),
 "C07": ("Theorems with explicit bounds: an answer available within n micro-steps of either operand is delivered within 4n+2 / 4n micro-steps "
         "of the interleaving merge whatever the other operand does; a fair bound for bind; completeness for every derivation through "
         "interleaving nodes. 'Delivered' means delivered unless a single engine step fails to return. AT THE LEVEL OF GOALS "
         "(FairProofs, PureElab): for the pure relational fragment (interleaving conjunction/disjunction, match, loop, fresh, closures, "
         "relation calls, for-all, project, all constraints; no conda/condu/onceo, no dfs block), any definitions and nesting depth, an "
         "answer that one clause delivers on its own is delivered by the whole disjunction after finitely many steps whatever the other "
         "clauses do, an answer of the second conjunct started in an answer of the first is delivered by the conjunction, and every "
         "answer derivable in the declarative semantics is delivered (search completeness, converse of C06's soundness).",
         "6/C07", "Coq proof: quantitative fairness of mplus/bind and completeness of interleaving search + step-exact correspondence incl. diverging branches",
         "A single step that itself diverges (error stream in the model) is outside the statement, as in the property text."),
 "C08": ("Theorems: conda/condu/onceo are equationally what the property says in terms of the matured head stream; maturing takes micro-steps "
         "that deliver nothing, so no head answer is dropped or duplicated; condu/onceo keep exactly the first answer the head delivers.",
         "6/C08", "Coq proof: committed-choice equations over the stream model + order- and step-exact correspondence + soft-cut reference oracle",
         ""),
 "C09": ("PARTIAL. Proved: the model of Solver::next is fused and lazy (an answer costs exactly the micro-steps that deliver it; the rest of "
         "the stream is untouched). Determinism is functionality in the model; independence of hash-set iteration order is not modelled and is "
         "observed by repeated in-process and fresh-process runs.",
         "6/C09", "Coq proof of fused/lazy iteration over the model + step-exact correspondence + repeated and cross-process runs",
         "Hash iteration order (RandomState, pointer hashing) is runtime behaviour outside the model."),
 "C10": ("PARTIAL. Proved: in the model each clause of a disjunction starts from the same state value and the disjunction's answers are the "
         "multiset union of the clauses' own answers (both kinds), and no single answer comes from anywhere but one clause run alone; "
         "at the level of goals, on the pure relational fragment, the answers of a disjunction are exactly the answers its clauses deliver "
         "when run alone from the same state (Fair10: nothing leaks, nothing is lost). "
         "Rc aliasing cannot be exhibited by a Gallina model: it is observed by combined-vs-separate runs on the implementation.",
         "6/C10", "Coq proof of the union law over the stream model + combined-vs-separate differential runs (incl. shared FD state)",
         "Rc::make_mut / unsafe aliasing is runtime behaviour; covered by the correspondence only."),
 "C18": ("Every public FiniteDomain operation is proved to implement the set operation on the denoted integer set for all well-formed "
         "domains of any size; tied to src/state/fd.rs by an exhaustive small-scope + extreme-bounds differential run in debug and release.",
         "6/C18", "Coq proof: set-semantics theorems over an executable model of fd.rs + exhaustive differential correspondence",
         ""),
}

props = [json.loads(l) for l in open('/verif/properties.jsonl')]
m = {"version": 1, "setup_cmd": "./check --setup",
     "hooks": {"guard": "terohuttunen_proto_vulcan_verif",
               "enable": "RUSTFLAGS=\"--cfg terohuttunen_proto_vulcan_verif\" cargo build --offline (the harness crate /verif/harness depends on /repo by path)",
               "baseline_off_cmd": "cd /repo && cargo test --workspace --no-fail-fast --offline",
               "source_commits": ["2b4a866"], "add_only": True},
     "engines": [{"name": "coq-model", "path": "/verif/coq", "serves_properties": sorted(CLAIMED),
                  "kind_free_text": "Coq 8.16 executable model + theorems; extracted to OCaml for the differential correspondence with the Rust harness"}],
     "checks": [], "notes": "see DESIGN.md", "not_applicable": []}
for p in props:
    i = p["id"]
    if i in CLAIMED:
        t, ref, tech, lim = CLAIMED[i]
        m["checks"].append({"property_id": i, "quick_cmd": "./check %s --tier quick" % i, "thorough_cmd": "./check %s --tier thorough" % i,
                            "evidence_file": "/verif/evidence/%s.json" % i, "replay_cmd_template": "./check %s --replay {path}" % i,
                            "engine": "coq-model", "level_claimed": {"category": "proof", "text": t, "design_ref": ref},
                            "level_note": NOTE + lim, "technique": tech})
    else:
        m["not_applicable"].append({"property_id": i, "reason": "not claimed at this commit: the proof/check for this property is still being built (see DESIGN.md section 9); not a statement that the technique cannot apply"})
json.dump(m, open('/verif/MANIFEST.json', 'w'), indent=1)
print("claimed", sorted(CLAIMED))
