#!/bin/bash
# usage: storeseed.sh Cxx suffix [also...]
id=$1; suf=$2; shift; shift
r=$(/tmp/verify_seed.sh $id 2>&1 | tail -1)
echo "$r" | grep -q "185 passed; 0 failed" || { echo "$id: tests not green: $r"; exit 1; }
echo "$r" | grep -q "demo_patched_rc=1 demo_clean_rc=0" || { echo "$id: demo not red/green: $(echo $r | grep -o 'demo_patched.*')"; exit 1; }
d=/verif/seeded/$id-$suf
mkdir -p $d; cp /tmp/seed_$id/SEED/patch.diff /tmp/seed_$id/SEED/demo.rs /tmp/seed_$id/SEED/notes.md $d/
python3 - "$id" "$d" "$@" <<'PY'
import json,sys
id,d=sys.argv[1],sys.argv[2]; also=sys.argv[3:]
notes=open(d+'/notes.md').read()
m={"breaks_property":id,"origin":"fresh sub-agent given only the property text and a scratch worktree",
 "needs_to_manifest":notes[:1500],
 "confirmed":"in the scratch worktree: cargo test --workspace --offline passes with the patch (185 unit + 22 doc tests); the demo (examples/seed_demo.rs) exits 1 with the patch and 0 without it",
 "how_to_run":"tools/seedtest.sh seeded/%s %s" % (d.split('/')[-1], id)}
if also: m["also_run"]=also
json.dump(m,open(d+'/meta.json','w'),indent=1)
PY
git -C /repo worktree remove --force /tmp/seed_$id; git -C /repo worktree prune
echo "$id stored as $d"
