import sys
pid=sys.argv[1]
prop=open('/tmp/seed_%s.prop.txt'%pid).read()
print(f"""You are helping test a verification framework for the Rust library proto-vulcan (a miniKanren-style relational logic language embedded in Rust: unification, search streams, CLP(Tree) disequality and CLP(FD) constraints, proc-macro surface syntax).

You have your own scratch git worktree of the library at /tmp/seed_{pid} (work ONLY there; never touch /repo or /verif; do not read anything under /verif). It builds offline: use `cargo test --offline` / `cargo run --offline --example <name>` with CARGO_NET_OFFLINE=true; put build output in the worktree's own target dir (the default). The existing test suite is `cargo test --workspace --offline` (185 unit tests + doc tests) and currently passes.

Here is a semantic property the library is supposed to satisfy:

{prop}

YOUR TASK: produce ONE realistic code change (a bug a maintainer could plausibly introduce: an off-by-one, a wrong branch, swapped operands, a missed case, a dropped call, an optimisation that is wrong in a corner) to the library source (src/ or macros/src/) that BREAKS this property while (a) the crate still compiles, and (b) the whole existing test suite still passes (`cargo test --workspace --offline`, all 185 unit tests and the doc tests). The change must need something specific to manifest — a particular multi-step sequence of operations, an unusual input shape, a particular interleaving/order, or two cooperating sites that each look fine alone — NOT something that ordinary use would expose at once (if nearly every query breaks, it is too blunt; pick something subtler). Keep it small (a few lines).

Deliver, in /tmp/seed_{pid}/SEED/ :
  1. patch.diff  — `git diff` of your change against the worktree HEAD (source files only, no target/).
  2. demo.rs     — a small self-contained demonstration: a Rust example program (to be placed at examples/seed_demo.rs and run with `cargo run --offline --example seed_demo`) using the public API / macros of proto_vulcan that exits 0 (prints PASS) on the unmodified library and exits non-zero (prints FAIL and what was wrong) with your change applied. It must directly demonstrate the property violation described above (wrong answers / missing answers / wrong order / panic etc.).
  3. notes.md    — 5-10 lines: what the change is, why the existing tests do not catch it, and precisely what is needed for it to manifest.

You MUST verify all of this yourself before finishing: with the patch applied, run the full test suite (must pass) and the demo (must FAIL); then revert the patch with `git diff -- src macros > SEED/patch.diff && git apply -R SEED/patch.diff` (do NOT use `git stash`: the stash is shared between worktrees) and run the demo again (must PASS); re-apply it with `git apply SEED/patch.diff` so that the final state of the worktree has the patch applied and SEED/ filled in. Report the exact commands you ran and their outcomes. If your first idea is caught by the existing tests, try another. Do not modify existing tests. Do not add the demo to the patch (the demo is delivered separately; you may leave a copy in examples/ untracked).
""")
