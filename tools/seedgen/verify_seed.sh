#!/bin/bash
# usage: verify_seed.sh Cxx  -> prints a summary line
p=$1; d=/tmp/seed_$p
cd $d || exit 1
export CARGO_NET_OFFLINE=true
cp SEED/demo.rs examples/seed_demo.rs 2>/dev/null
# state: patch applied?
if git apply --check -R SEED/patch.diff 2>/dev/null; then applied=yes; else applied=no; git apply SEED/patch.diff; fi
t=$(timeout 1200 cargo test --workspace --offline 2>&1 | grep -E "^test result" | tr '\n' ' ')
timeout 300 cargo run --offline --example seed_demo >/tmp/seed_$p.demo_patched.log 2>&1; r1=$?
git apply -R SEED/patch.diff
timeout 300 cargo run --offline --example seed_demo >/tmp/seed_$p.demo_clean.log 2>&1; r2=$?
git apply SEED/patch.diff
echo "$p tests=[$t] demo_patched_rc=$r1 demo_clean_rc=$r2"
