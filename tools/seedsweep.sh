#!/bin/bash
# usage: tools/seedsweep.sh [suffix] : every stored seeded change (or only seeded/*-<suffix>, appended to RESULTS.md) against the check of the property it breaks (and related ones);
# writes seeded/RESULTS.md.  /repo must be clean; it is restored after every seed.
cd /verif
out=seeded/RESULTS.md
if [ -z "$1" ]; then
  echo "| seeded change | breaks | check | outcome |" > $out
  echo "|---|---|---|---|" >> $out
  sel="seeded/C*"
else
  sel="seeded/C*-$1"
fi
for d in $sel; do
  [ -f $d/patch.diff ] || continue
  p=$(python3 -c "import json;print(json.load(open('$d/meta.json'))['breaks_property'])")
  extra=$(python3 -c "import json;print(' '.join(json.load(open('$d/meta.json')).get('also_run',[])))")
  git -C /repo diff --quiet || { echo "/repo is dirty"; exit 2; }
  git -C /repo apply /verif/$d/patch.diff || { echo "| $(basename $d) | $p | - | patch does not apply |" >> $out; continue; }
  for c in $p $extra; do
    r=$(timeout 1500 ./check $c --tier quick 2>&1 | grep -E "^(VIOLATION|OK)" | head -1)
    case "$r" in
      VIOLATION*no-failing-input-found) o="reported, no-failing-input-found";;
      VIOLATION*) o="caught with a concrete failing input";;
      OK*) o="MISSED";;
      *) o="?? $r";;
    esac
    echo "| $(basename $d) | $p | $c | $o |" >> $out
  done
  git -C /repo checkout -- .
done
# re-run every check on the restored tree so that evidence/ describes the unchanged tree again
for i in 01 02 03 04 05 06 07 08 09 10 11 12 13 14 15 16 17 18 19 20 21 22 23 24; do timeout 1500 ./check C$i --tier quick >/dev/null 2>&1; done
cat $out
